package main

// C17: the TEI engine analyses the told position; one legal bestmove per go; thinking time within the clock.
// (also the TEI part of C13: teiOutcome)
//
// The implementation side runs in build/tei.test (package tei + harness/overlay/tei_driver_test.go.txt, built by
// harness/build_c17.sh): this file generates command scripts, has them run there, judges the observations with an oracle
// written from the protocol / the property (own tokenizer, own PTN and TPS readers, the rules oracle of oracle_rules.go)
// and prints the CASE lines for the extracted model (coq/Tei.v + TeiInst.v, ocaml/drv_c17.ml).

import (
	"bufio"
	"context"
	"encoding/hex"
	"encoding/json"
	"fmt"
	"io"
	"log"
	"math/rand"
	"os"
	"os/exec"
	"path/filepath"
	"regexp"
	"strconv"
	"strings"

	"github.com/nelhage/taktician/ai"
	"github.com/nelhage/taktician/tak"
	"github.com/nelhage/taktician/tei"
)

func init() { register("C17", runC17) }

// ---------------------------------------------------------------------------------------------------------------------
// C13 hook: how Engine.Run ends on an arbitrary byte stream ("OK" nil / "ERR" error / "PANIC <msg>").
// The engine gets ConfigFactory{Depth: 1, EvaluateWinner, no table} (= model instance depth 1, evk 1, tbl 0).
func teiOutcome(script string) string {
	log.SetOutput(io.Discard)
	e := tei.NewEngine(strings.NewReader(script), io.Discard)
	e.ConfigFactory = func(size int) ai.MinimaxConfig {
		return ai.MinimaxConfig{Size: size, Depth: 1, Seed: 1, NoSort: true, NoNullMove: true, NoReduceSlides: true, TableMem: -1,
			Evaluate: ai.EvaluateWinner}
	}
	var err error
	if panicked, msg := safely(func() { err = e.Run(context.Background()) }); panicked {
		return "PANIC " + msg
	}
	if err != nil {
		return "ERR"
	}
	return "OK"
}

// ---------------------------------------------------------------------------------------------------------------------
// running the in-package driver

func c17Dirs() (harness, build string) {
	exe, err := os.Executable()
	if err != nil {
		panic(err)
	}
	exe, _ = filepath.EvalSymlinks(exe)
	build = filepath.Dir(exe)
	harness = filepath.Join(filepath.Dir(build), "harness")
	return
}

func c17Build() string {
	harness, build := c17Dirs()
	cmd := exec.Command("bash", filepath.Join(harness, "build_c17.sh"))
	cmd.Env = os.Environ()
	out, err := cmd.CombinedOutput()
	if err != nil {
		fmt.Fprintf(os.Stderr, "build_c17.sh failed: %v\n%s\n", err, out)
		os.Exit(3)
	}
	return filepath.Join(build, "tei.test")
}

// c17Drive sends the requests to tei.test and returns the responses (same order).
func c17Drive(bin string, tag string, reqs []string) []string {
	_, build := c17Dirs()
	dir := filepath.Join(build, "c17")
	os.MkdirAll(dir, 0o755)
	in := filepath.Join(dir, "req-"+tag+".txt")
	out := filepath.Join(dir, "resp-"+tag+".txt")
	if err := os.WriteFile(in, []byte(strings.Join(reqs, "\n")+"\n"), 0o644); err != nil {
		panic(err)
	}
	os.Remove(out)
	cmd := exec.Command(bin, "-test.run", "^TestVerifTeiDriver$", "-test.timeout", "0")
	cmd.Env = append(os.Environ(), "VERIF_TEI_IN="+in, "VERIF_TEI_OUT="+out)
	if o, err := cmd.CombinedOutput(); err != nil {
		fmt.Fprintf(os.Stderr, "tei.test failed: %v\n%s\n", err, o)
		os.Exit(3)
	}
	data, err := os.ReadFile(out)
	if err != nil {
		panic(err)
	}
	resp := strings.Split(strings.TrimSuffix(string(data), "\n"), "\n")
	if len(resp) != len(reqs) {
		fmt.Fprintf(os.Stderr, "tei.test: %d responses for %d requests\n", len(resp), len(reqs))
		os.Exit(3)
	}
	return resp
}

// ---------------------------------------------------------------------------------------------------------------------
// the oracle's own readers and writers of PTN moves and TPS (written from the notation, not from package ptn)

const (
	cOK     = 1 // well formed by the notation
	cBad    = 0 // cannot be read as what it should be: the engine must refuse it
	cUnsure = 2 // sloppy text that a lenient reader may or may not accept: nothing is demanded
)

var c17MoveRE = regexp.MustCompile(`^(?:([FSC]?)([a-h])([1-8])|([1-8]?)([a-h])([1-8])([<>+\-])([1-8]*))$`)
var c17SquareRE = regexp.MustCompile(`[a-h][1-8]`)

func c17ParseMove(w string) (tak.Move, int) {
	if !c17SquareRE.MatchString(w) {
		return tak.Move{}, cBad
	}
	g := c17MoveRE.FindStringSubmatch(w)
	if g == nil {
		return tak.Move{}, cUnsure
	}
	if g[2] != "" {
		t := tak.PlaceFlat
		switch g[1] {
		case "S":
			t = tak.PlaceStanding
		case "C":
			t = tak.PlaceCapstone
		}
		return tak.Move{X: int8(g[2][0] - 'a'), Y: int8(g[3][0] - '1'), Type: t}, cOK
	}
	count := 1
	if g[4] != "" {
		count = int(g[4][0] - '0')
	}
	var drops []int
	sum := 0
	for _, d := range g[8] {
		drops = append(drops, int(d-'0'))
		sum += int(d - '0')
	}
	if len(drops) == 0 {
		drops, sum = []int{count}, count
	}
	if sum != count {
		return tak.Move{}, cUnsure
	}
	var sl uint32
	for i, d := range drops {
		sl |= uint32(d) << uint(4*i)
	}
	t := map[string]tak.MoveType{"<": tak.SlideLeft, ">": tak.SlideRight, "+": tak.SlideUp, "-": tak.SlideDown}[g[7]]
	return tak.Move{X: int8(g[5][0] - 'a'), Y: int8(g[6][0] - '1'), Type: t, Slides: tak.Slides(sl)}, cOK
}

// style: 0 shortest, 1 explicit ("Fa1", "1a1>1")
func c17FormatMove(m tak.Move, style int) string {
	sq := string([]byte{byte('a' + m.X), byte('1' + m.Y)})
	switch m.Type {
	case tak.PlaceFlat:
		if style == 1 {
			return "F" + sq
		}
		return sq
	case tak.PlaceStanding:
		return "S" + sq
	case tak.PlaceCapstone:
		return "C" + sq
	}
	var drops []int
	sum := 0
	for s := uint32(m.Slides); s != 0; s >>= 4 {
		drops = append(drops, int(s&15))
		sum += int(s & 15)
	}
	out := ""
	if sum != 1 || style == 1 {
		out = strconv.Itoa(sum)
	}
	out += sq + map[tak.MoveType]string{tak.SlideLeft: "<", tak.SlideRight: ">", tak.SlideUp: "+", tak.SlideDown: "-"}[m.Type]
	if len(drops) > 1 || style == 1 {
		for _, d := range drops {
			out += strconv.Itoa(d)
		}
	}
	return out
}

var c17DefaultPieces = map[int][2]int{3: {10, 0}, 4: {15, 0}, 5: {21, 1}, 6: {30, 1}, 7: {40, 2}, 8: {50, 2}}

func c17EmptyBoard(n int) *aboard {
	a := &aboard{n: n, sq: make([][]tak.Square, n)}
	for y := range a.sq {
		a.sq[y] = make([]tak.Square, n)
	}
	d := c17DefaultPieces[n]
	a.ws, a.bs, a.wc, a.bc = d[0], d[0], d[1], d[1]
	return a
}

var c17CellRE = regexp.MustCompile(`^(?:x([1-8]?)|([12]+)([SC]?))$`)
var c17CanonRE = regexp.MustCompile(`^[1-9][0-9]{0,6}$`)

// three words: rows, side to move, move number
func c17ParseTPS(rows, turn, mvn string) (*aboard, int) {
	cls := cOK
	rs := strings.Split(rows, "/")
	n := len(rs)
	if n < 3 || n > 8 {
		return nil, cBad
	}
	if turn != "1" && turn != "2" {
		return nil, cBad
	}
	if !c17CanonRE.MatchString(mvn) {
		if _, err := strconv.Atoi(mvn); err != nil {
			return nil, cBad
		}
		return nil, cUnsure
	}
	num, _ := strconv.Atoi(mvn)
	a := c17EmptyBoard(n)
	a.ply = 2*(num-1) + int(turn[0]-'1')
	for i, r := range rs {
		y := n - 1 - i
		x := 0
		for _, cell := range strings.Split(r, ",") {
			g := c17CellRE.FindStringSubmatch(cell)
			if g == nil {
				if cell == "" || cell == "S" || cell == "C" {
					return nil, cBad // empty cell, bare marker
				}
				cls = cUnsure
				continue
			}
			if g[2] == "" {
				k := 1
				if g[1] != "" {
					k = int(g[1][0] - '0')
				}
				x += k
				continue
			}
			if x >= n {
				x++
				continue
			}
			st := g[2] // bottom first
			sq := make(tak.Square, len(st))
			for j := range st {
				col := tak.White
				if st[j] == '2' {
					col = tak.Black
				}
				kind := tak.Flat
				if j == len(st)-1 {
					switch g[3] {
					case "S":
						kind = tak.Standing
					case "C":
						kind = tak.Capstone
					}
				}
				sq[len(st)-1-j] = tak.MakePiece(col, kind)
				r := &a.ws
				switch {
				case kind == tak.Capstone && col == tak.White:
					r = &a.wc
				case kind == tak.Capstone:
					r = &a.bc
				case col == tak.Black:
					r = &a.bs
				}
				*r--
			}
			if len(sq) > 60 {
				cls = cUnsure
			}
			a.sq[y][x] = sq
			x++
		}
		if cls == cOK && x != n {
			return nil, cBad
		}
	}
	if cls != cOK {
		return nil, cUnsure
	}
	if a.ws < 0 || a.wc < 0 || a.bs < 0 || a.bc < 0 {
		return nil, cUnsure // more pieces on the board than a player owns: not a position of the game
	}
	return a, cOK
}

// the text of common.go's encAbs, for a board of the oracle
func c17Enc(a *aboard) string {
	sq := make([]string, 0, a.n*a.n)
	for y := 0; y < a.n; y++ {
		for x := 0; x < a.n; x++ {
			sq = append(sq, encSquare(a.sq[y][x]))
		}
	}
	return fmt.Sprintf("%d %d %d %d %d %d %s", a.n, a.ws, a.wc, a.bs, a.bc, a.ply, strings.Join(sq, ","))
}

func c17FormatTPS(a *aboard) string {
	var rows []string
	for y := a.n - 1; y >= 0; y-- {
		var cells []string
		for x := 0; x < a.n; {
			k := 0
			for x+k < a.n && len(a.sq[y][x+k]) == 0 {
				k++
			}
			if k == 1 {
				cells = append(cells, "x")
			} else if k > 1 {
				cells = append(cells, "x"+strconv.Itoa(k))
			}
			x += k
			if x >= a.n {
				break
			}
			sq := a.sq[y][x]
			s := ""
			for j := len(sq) - 1; j >= 0; j-- {
				if sq[j].Color() == tak.White {
					s += "1"
				} else {
					s += "2"
				}
			}
			switch sq[0].Kind() {
			case tak.Standing:
				s += "S"
			case tak.Capstone:
				s += "C"
			}
			cells = append(cells, s)
			x++
		}
		rows = append(rows, strings.Join(cells, ","))
	}
	return fmt.Sprintf("%s %d %d", strings.Join(rows, "/"), a.ply%2+1, a.ply/2+1)
}

// every move the rules could allow from a (candidates; rulesMove decides)
func c17Candidates(a *aboard) []tak.Move {
	var ms []tak.Move
	n := a.n
	var comps func(left, maxParts int, cur []int, f func([]int))
	comps = func(left, maxParts int, cur []int, f func([]int)) {
		if left == 0 {
			f(cur)
			return
		}
		if maxParts == 0 {
			return
		}
		for d := 1; d <= left; d++ {
			comps(left-d, maxParts-1, append(cur, d), f)
		}
	}
	for y := 0; y < n; y++ {
		for x := 0; x < n; x++ {
			if len(a.sq[y][x]) == 0 {
				for _, t := range []tak.MoveType{tak.PlaceFlat, tak.PlaceStanding, tak.PlaceCapstone} {
					ms = append(ms, tak.Move{X: int8(x), Y: int8(y), Type: t})
				}
				continue
			}
			for _, t := range []tak.MoveType{tak.SlideLeft, tak.SlideRight, tak.SlideUp, tak.SlideDown} {
				room := map[tak.MoveType]int{tak.SlideLeft: x, tak.SlideRight: n - 1 - x, tak.SlideUp: n - 1 - y, tak.SlideDown: y}[t]
				for c := 1; c <= n && c <= len(a.sq[y][x]); c++ {
					comps(c, room, nil, func(d []int) {
						var sl uint32
						for i, v := range d {
							sl |= uint32(v) << uint(4*i)
						}
						ms = append(ms, tak.Move{X: int8(x), Y: int8(y), Type: t, Slides: tak.Slides(sl)})
					})
				}
			}
		}
	}
	return ms
}

func c17Children(a *aboard) []*aboard {
	var out []*aboard
	for _, m := range c17Candidates(a) {
		if b := a.rulesMove(m); b != nil {
			out = append(out, b)
		}
	}
	return out
}

// ---------------------------------------------------------------------------------------------------------------------
// clock arithmetic of `go` (int64 nanoseconds, wrapping like time.Duration)

type c17Clock struct{ mt, wt, bt, wi, bi int64 }

var c17Opts = map[string]int{"movetime": 0, "wtime": 1, "btime": 2, "winc": 3, "binc": 4}
var c17UintRE = regexp.MustCompile(`^[0-9]+$`)

// the arguments of a go line: ok=false when the engine must refuse them
func c17ParseGoArgs(args []string) (c17Clock, bool) {
	var v [5]int64
	for len(args) > 0 {
		if len(args) == 1 {
			return c17Clock{}, false
		}
		k, known := c17Opts[args[0]]
		if !known || !c17UintRE.MatchString(args[1]) {
			return c17Clock{}, false
		}
		ms, err := strconv.ParseUint(args[1], 10, 64)
		if err != nil {
			return c17Clock{}, false // more than 64 bits
		}
		v[k] = int64(ms) * 1000000
		args = args[2:]
	}
	return c17Clock{v[0], v[1], v[2], v[3], v[4]}, true
}

// the thinking time the repaired engine allots (used by the GENERATOR to keep the compared scripts away from deadlines,
// and by the probe; the property itself only bounds it: see c17BudgetOracle)
func c17Allot(mt, gt, inc int64) int64 {
	if gt == 0 {
		if mt > 0 {
			return mt
		}
		return 0
	}
	b := gt/5 + inc
	if b > gt-1000000 {
		b = gt - 1000000
	}
	if mt > 0 && mt < b {
		return mt
	}
	return b
}

// limited, budget for one colour
func (k c17Clock) limit(white bool) (bool, int64) {
	tm, inc := k.bt, k.bi
	if white {
		tm, inc = k.wt, k.wi
	}
	if k.mt > 0 || tm > 0 {
		return true, c17Allot(k.mt, tm, inc)
	}
	return false, 0
}

const c17Generous = int64(20e9)

// safe = whichever side is to move, the search is not cut by the clock
func (k c17Clock) safe() bool {
	for _, w := range []bool{true, false} {
		if lim, b := k.limit(w); lim && b < c17Generous {
			return false
		}
	}
	return true
}

// the property's budget clause on one triple: "" or what is wrong
func c17BudgetOracle(mt, gt, inc, got int64) string {
	if mt < 0 || gt < 0 || inc < 0 {
		return ""
	}
	if gt > 0 && !(got < gt) {
		return fmt.Sprintf("budget %d is not below the remaining clock %d", got, gt)
	}
	if mt > 0 && !(got <= mt) {
		return fmt.Sprintf("budget %d exceeds the per-move time %d", got, mt)
	}
	return ""
}

// ---------------------------------------------------------------------------------------------------------------------
// observations

type c17Rec struct {
	st       string // N / E / P...
	out      []string
	pos      string // abs encoding, "-" none ("=" resolved)
	fac      []int
	size     int
	mm       bool
	nevals   int
	evalInst int
	mixed    bool
	evals    []string
}

func c17ParseResp(resp string) []c17Rec {
	i := strings.Index(resp, " # ")
	body := resp[i+3:]
	var recs []c17Rec
	if strings.TrimSpace(body) == "" {
		return nil
	}
	prev := "-"
	for _, r := range strings.Split(body, " ; ") {
		f := strings.Split(r, " ~ ")
		for len(f) < 10 {
			f = append(f, "")
		}
		for j := range f {
			f[j] = strings.TrimSpace(f[j])
		}
		rec := c17Rec{st: f[0], pos: f[2]}
		if f[1] != "" {
			rec.out = strings.Split(f[1], "/")
		}
		if rec.pos == "=" {
			rec.pos = prev
		}
		prev = rec.pos
		if f[3] != "" {
			for _, s := range strings.Split(f[3], ",") {
				n, _ := strconv.Atoi(s)
				rec.fac = append(rec.fac, n)
			}
		}
		rec.size, _ = strconv.Atoi(f[4])
		rec.mm = f[5] == "1"
		rec.nevals, _ = strconv.Atoi(f[6])
		rec.evalInst, _ = strconv.Atoi(f[7])
		rec.mixed = f[8] == "1"
		if f[9] != "" {
			rec.evals = strings.Split(f[9], "&")
		}
		recs = append(recs, rec)
	}
	return recs
}

// ---------------------------------------------------------------------------------------------------------------------
// the oracle

type c17Script struct {
	mode   string // L: one Run per line (same engine); R: one Run over the whole stream
	depth  int
	evk    int
	tbl    int
	rec    bool
	text   []byte
	family string
	tiny   bool // contains a go whose clock may cut the search: judged by the oracle only, not compared with the model
}

func (s *c17Script) input() string {
	return fmt.Sprintf("S %s %d %d %d %s", s.mode, s.depth, s.evk, s.tbl, hex.EncodeToString(s.text))
}

type c17Fail struct{ class, did, want string }

func c17Lines(text []byte) []string {
	var out []string
	s := string(text)
	for {
		i := strings.IndexByte(s, '\n')
		if i < 0 {
			return out
		}
		out = append(out, s[:i])
		s = s[i+1:]
	}
}

var c17InfoRE = regexp.MustCompile(`^info depth ([0-9]+) time T nodes ([0-9]+) score cp (-?[0-9]+) pv((?: [^ ]+)+)$`)
var c17BestRE = regexp.MustCompile(`^bestmove ([^ ]+)$`)
var c17Banner = []string{"id name Taktician", "id author Nelson Elhage", "teiok"}

type c17Oracle struct {
	s         *c17Script
	sizeKnown bool
	size      int // 0 = no valid size configured
	posState  int // 0 none, 1 known, 2 unknown
	pos       *aboard
	nfac      int
	nfacAtNew int
	fails     []c17Fail
	stats     map[string]int64
}

func (o *c17Oracle) fail(class, did, want string) {
	o.fails = append(o.fails, c17Fail{class, did, want})
}

// what a line should do: status "N"/"E"/"?" ; out: exact lines, or a go verdict
type c17Expect struct {
	status  string
	exact   bool     // output must equal lines
	lines   []string // when exact
	goKind  int      // when !exact: 1 must answer (position goPos), 0 either (weak)
	goPos   *aboard  // may be nil when unknown
	goArgs  bool
	isGo    bool
	goOver  bool // go on a finished game: the searcher may look at the position, but names no move
	isNew   bool
	isPos   bool
	posWant *aboard // isPos && status N: the declared position
}

// classify the size argument of teinewgame
func c17SizeArg(w string) (int, int) {
	if c17CanonRE.MatchString(w) || w == "0" {
		n, _ := strconv.Atoi(w)
		if n >= 3 && n <= 8 {
			return n, cOK
		}
		return 0, cBad
	}
	if n, err := strconv.Atoi(w); err == nil {
		if n >= 3 && n <= 8 {
			return 0, cUnsure // "+5", "05": a number, but not written the plain way
		}
		return 0, cBad
	}
	return 0, cBad
}

// the position a `position` line declares under the current size: (position, class)
func (o *c17Oracle) declared(words []string) (*aboard, int) {
	if len(words) < 2 {
		return nil, cBad
	}
	var a *aboard
	rest := words[2:]
	switch words[1] {
	case "startpos":
		if !o.sizeKnown {
			return nil, cUnsure
		}
		if o.size == 0 {
			return nil, cBad
		}
		a = c17EmptyBoard(o.size)
	case "tps":
		if len(words) < 5 {
			return nil, cBad
		}
		b, cls := c17ParseTPS(words[2], words[3], words[4])
		if cls != cOK {
			return nil, cls
		}
		if !o.sizeKnown {
			return nil, cUnsure
		}
		if b.n != o.size {
			return nil, cBad
		}
		a = b
		rest = words[5:]
	default:
		return nil, cBad
	}
	if len(rest) == 0 {
		return a, cOK
	}
	if rest[0] != "moves" {
		return nil, cBad
	}
	cls := cOK
	for _, w := range rest[1:] {
		m, c := c17ParseMove(w)
		if c == cBad {
			return nil, cBad // refused whatever came before
		}
		if c == cUnsure {
			cls = cUnsure
			continue
		}
		if cls == cOK {
			a = a.rulesMove(m)
			if a == nil {
				return nil, cBad
			}
		}
	}
	if cls != cOK {
		return nil, cUnsure
	}
	return a, cOK
}

// expectation for one line, and the oracle's state after it
func (o *c17Oracle) expect(line string) c17Expect {
	words := strings.Fields(line)
	if len(words) == 0 {
		return c17Expect{status: "N", exact: true}
	}
	switch words[0] {
	case "tei":
		return c17Expect{status: "N", exact: true, lines: c17Banner}
	case "isready":
		return c17Expect{status: "N", exact: true, lines: []string{"readyok"}}
	case "stop":
		return c17Expect{status: "N", exact: true}
	case "quit":
		return c17Expect{status: "Q", exact: true}
	case "teinewgame":
		o.posState, o.pos = 0, nil
		o.nfacAtNew = o.nfac
		e := c17Expect{status: "N", exact: true, isNew: true}
		if len(words) == 1 {
			o.sizeKnown, o.size = true, 5
			return e
		}
		n, cls := c17SizeArg(words[1])
		switch cls {
		case cOK:
			o.sizeKnown, o.size = true, n
		case cBad:
			o.sizeKnown, o.size = true, 0
			e.status = "E"
		default:
			o.sizeKnown, o.size = false, 0
			e.status = "?"
		}
		return e
	case "position":
		a, cls := o.declared(words)
		e := c17Expect{exact: true, isPos: true}
		switch cls {
		case cOK:
			e.status, e.posWant = "N", a
			o.posState, o.pos = 1, a
		case cBad:
			e.status = "E"
			o.posState, o.pos = 2, nil // the property does not say what a refused `position` leaves behind
		default:
			e.status = "?"
			o.posState, o.pos = 2, nil
		}
		return e
	case "go":
		e := c17Expect{status: "N", isGo: true}
		clock, ok := c17ParseGoArgs(words[1:])
		e.goArgs = ok
		if o.posState == 0 || (!ok && o.posState == 1) {
			e.exact = true // refused: nothing to analyse / bad arguments
			return e
		}
		if o.posState == 2 {
			if !ok {
				e.exact = true
				return e
			}
			return e // weak
		}
		e.goPos = o.pos
		if over, _, _ := o.pos.outcome(); over {
			e.exact, e.goOver = true, true // finished game: no move to name
			return e
		}
		if clock.safe() {
			e.goKind = 1
		}
		return e
	}
	return c17Expect{status: "E", exact: true}
}

func c17SameLines(a, b []string) bool {
	if len(a) != len(b) {
		return false
	}
	for i := range a {
		if a[i] != b[i] {
			return false
		}
	}
	return true
}

// judge the answer of one go: out = the lines it produced
func (o *c17Oracle) judgeGo(e c17Expect, out []string, ctx string) {
	if len(out) == 0 {
		if e.goKind == 0 && e.goPos != nil {
			o.stats["tiny_clock_go_without_bestmove"]++ // live position, clock (nearly) exhausted: the search was cut before its first iteration
		}
		if e.goKind == 1 {
			o.fail("go-no-bestmove", ctx+": no output", "info line + one bestmove naming a legal move of "+c17Enc(e.goPos))
		}
		return
	}
	if e.goKind == 0 && e.goPos != nil {
		o.stats["tiny_clock_go_answered"]++
	}
	nbest := 0
	for _, l := range out {
		if strings.HasPrefix(l, "bestmove") {
			nbest++
		}
	}
	if len(out) != 2 || nbest != 1 || !c17InfoRE.MatchString(out[0]) || !c17BestRE.MatchString(out[1]) {
		o.fail("go-output-shape", ctx+": "+strings.Join(out, " / "), "exactly one info line followed by exactly one bestmove line")
		return
	}
	pv := strings.Fields(c17InfoRE.FindStringSubmatch(out[0])[4])
	best := c17BestRE.FindStringSubmatch(out[1])[1]
	if pv[0] != best {
		o.fail("go-output-shape", ctx+": "+strings.Join(out, " / "), "bestmove = first move of the pv of its info line")
	}
	if e.goPos == nil {
		return
	}
	m, cls := c17ParseMove(best)
	if cls != cOK || e.goPos.rulesMove(m) == nil {
		o.fail("bestmove-illegal", ctx+": "+out[1], "a move legal in the declared position "+c17Enc(e.goPos))
	}
}

// the evaluations seen during one accepted go must be of positions reached from the declared one within depth plies
func (o *c17Oracle) judgeEvals(e c17Expect, r c17Rec, ctx string) {
	if e.goPos == nil || len(r.evals) == 0 {
		return
	}
	kids := c17Children(e.goPos)
	set := map[string]bool{}
	for _, k := range kids {
		set[c17Enc(k)] = true
	}
	full := o.s.depth == 1
	if o.s.depth == 2 && e.goPos.n <= 4 {
		full = true
		for _, k := range kids {
			if over, _, _ := k.outcome(); over {
				continue
			}
			for _, g := range c17Children(k) {
				set[c17Enc(g)] = true
			}
		}
	}
	bad := ""
	for _, q := range r.evals {
		f := strings.Fields(q)
		ply, _ := strconv.Atoi(f[5])
		switch {
		case ply == e.goPos.ply+1 || full:
			if !set[q] {
				bad = q
			}
		case ply < e.goPos.ply+1 || ply > e.goPos.ply+o.s.depth:
			bad = q
		}
		if bad != "" {
			break
		}
	}
	o.stats["evals_checked"] += int64(len(r.evals))
	if bad != "" {
		o.fail("wrong-position-analysed", ctx+": the searcher evaluated "+bad,
			fmt.Sprintf("only positions within %d plies of the declared position %s", o.s.depth, c17Enc(e.goPos)))
	}
}

func (o *c17Oracle) panicClass(line string, st string) string {
	w := strings.Fields(line)
	if len(w) > 0 && w[0] == "go" && strings.Contains(st, "index out of range [0] with length 0") {
		return "tei-go-empty-pv"
	}
	if len(w) > 1 && w[0] == "position" && w[1] == "startpos" && o.size == 0 {
		return "tei-position-before-newgame"
	}
	return "tei-panic"
}

// mode L: one record per line
func (o *c17Oracle) judgeLines(lines []string, recs []c17Rec) {
	for i, line := range lines {
		if i >= len(recs) {
			if len(recs) == 1 && recs[0].st == "H" {
				o.fail("tei-hang", "the script did not come back within the watchdog time", "every command is answered in bounded time")
				return
			}
			o.fail("tei-driver", "no record for line "+strconv.Itoa(i), "one record per line")
			return
		}
		r := recs[i]
		ctx := fmt.Sprintf("line %d %q", i+1, line)
		sizeBefore := o.size
		_ = sizeBefore
		if strings.HasPrefix(r.st, "P") {
			o.fail(o.panicClass(line, r.st), ctx+": Run panicked: "+r.st[1:], "a value or an error, never a panic")
			return
		}
		if r.st == "H" {
			o.fail("tei-hang", "the script did not come back within the watchdog time", "every command is answered in bounded time")
			return
		}
		e := o.expect(line)
		want := e.status
		if want == "Q" {
			want = "N"
		}
		if want != "?" && r.st != want {
			o.fail("run-status", ctx+": Run returned "+r.st, "Run returns "+want+" (N = nil / loop goes on, E = error)")
		}
		o.nfac += len(r.fac)
		switch {
		case e.isGo && !e.exact:
			o.judgeGo(e, r.out, ctx)
		case !c17SameLines(r.out, e.lines):
			class := "unexpected-output"
			if e.isGo {
				class = "go-answered-without-position"
				if o.posState == 1 {
					class = "go-answered-wrongly"
				}
			}
			o.fail(class, ctx+": output "+strings.Join(r.out, " / "), "output "+strings.Join(e.lines, " / ")+" (nothing, if empty)")
		}
		if e.isNew && (r.pos != "-" || r.mm) {
			o.fail("newgame-keeps-state", ctx+fmt.Sprintf(": position %s, searcher kept %v", r.pos, r.mm), "teinewgame discards position and searcher")
		}
		if e.isPos && e.status == "N" && r.st == "N" && r.pos != c17Enc(e.posWant) {
			o.fail("position-mismatch", ctx+": engine position "+r.pos, "declared position "+c17Enc(e.posWant))
		}
		if e.isGo {
			if e.goOver {
				for _, q := range r.evals {
					if q != c17Enc(e.goPos) {
						o.fail("wrong-position-analysed", ctx+": the searcher evaluated "+q, "only the declared (finished) position "+c17Enc(e.goPos))
						break
					}
				}
			} else if e.exact && r.nevals > 0 {
				o.fail("search-on-refused-go", ctx+fmt.Sprintf(": %d evaluations", r.nevals), "no search")
			}
			if len(r.out) > 0 || r.nevals > 0 {
				// a search ran: its searcher must have been built after the last teinewgame, for the current size
				if r.nevals > 0 && (r.evalInst <= o.nfacAtNew || r.mixed) {
					o.fail("stale-searcher", ctx+fmt.Sprintf(": evaluations by searcher #%d, %d searchers existed at the last teinewgame", r.evalInst, o.nfacAtNew),
						"a searcher built after the last teinewgame")
				}
				if o.nfac <= o.nfacAtNew {
					o.fail("stale-searcher", ctx+": answered without building a searcher since the last teinewgame", "a searcher built after the last teinewgame")
				}
			}
			for _, fs := range r.fac {
				if o.sizeKnown && fs != o.size {
					o.fail("searcher-wrong-size", ctx+fmt.Sprintf(": searcher built for size %d", fs), fmt.Sprintf("size %d", o.size))
				}
			}
			if !e.exact {
				o.judgeEvals(e, r, ctx)
			}
		} else if len(r.fac) > 0 || r.nevals > 0 {
			o.fail("search-outside-go", ctx+fmt.Sprintf(": %d searchers built, %d evaluations", len(r.fac), r.nevals), "only go searches")
		}
	}
}

// mode R: one record for the whole stream
func (o *c17Oracle) judgeStream(lines []string, r c17Rec) {
	if strings.HasPrefix(r.st, "P") {
		// find the line: the first whose expectation cannot be matched is a guess; report the script
		o.fail("tei-panic", "Run panicked: "+r.st[1:], "a value or an error, never a panic")
		return
	}
	if r.st == "H" {
		o.fail("tei-hang", "Run did not come back within the watchdog time", "every command is answered in bounded time")
		return
	}
	out := r.out
	for i, line := range lines {
		ctx := fmt.Sprintf("line %d %q", i+1, line)
		e := o.expect(line)
		if e.status == "?" {
			return // cannot tell whether Run went on
		}
		var got []string
		switch {
		case e.isGo && !e.exact:
			if len(out) > 0 && strings.HasPrefix(out[0], "info ") {
				k := 2
				if len(out) < 2 {
					k = 1
				}
				got, out = out[:k], out[k:]
			}
			o.judgeGo(e, got, ctx)
		default:
			k := len(e.lines)
			if k > len(out) || !c17SameLines(out[:k], e.lines) {
				o.fail("unexpected-output", ctx+": remaining output "+strings.Join(out, " / "), "next output "+strings.Join(e.lines, " / "))
				return
			}
			out = out[k:]
		}
		if e.status == "E" || e.status == "Q" {
			want := "N"
			if e.status == "E" {
				want = "E"
			}
			if r.st != want {
				o.fail("run-status", ctx+": Run returned "+r.st, "Run ends here returning "+want)
			}
			if len(out) > 0 {
				o.fail("unexpected-output", ctx+": output after Run should have ended: "+strings.Join(out, " / "), "nothing")
			}
			return
		}
	}
	if r.st != "N" {
		o.fail("run-status", "end of stream: Run returned "+r.st, "nil")
	}
	if len(out) > 0 {
		o.fail("unexpected-output", "end of stream: extra output "+strings.Join(out, " / "), "nothing")
	}
}

func c17Judge(s *c17Script, recs []c17Rec) ([]c17Fail, map[string]int64) {
	o := &c17Oracle{s: s, sizeKnown: true, stats: map[string]int64{}}
	lines := c17Lines(s.text)
	if s.mode == "L" {
		o.judgeLines(lines, recs)
	} else if len(recs) == 1 {
		o.judgeStream(lines, recs[0])
	} else {
		o.fail("tei-driver", fmt.Sprintf("%d records", len(recs)), "one record")
	}
	return o.fails, o.stats
}

// L1 / L2 strings of the CASE line (the model driver prints the same)
func c17L1L2(recs []c17Rec) (string, string) {
	var l1, l2 []string
	prev := "-"
	for _, r := range recs {
		st := r.st
		if strings.HasPrefix(st, "P") {
			st = "P"
		}
		pos := r.pos
		if pos == prev && pos != "-" {
			pos = "="
		}
		prev = r.pos
		fac := make([]string, len(r.fac))
		for i, f := range r.fac {
			fac[i] = strconv.Itoa(f)
		}
		l1 = append(l1, st+"~"+strings.Join(r.out, "/")+"~"+pos+"~"+strings.Join(fac, ","))
		l2 = append(l2, fmt.Sprintf("%d~%d", r.size, b2i(r.mm)))
	}
	return strings.Join(l1, ";"), strings.Join(l2, ";")
}

// ---------------------------------------------------------------------------------------------------------------------
// generators

type c17Gen struct {
	r *rand.Rand
}

func (g *c17Gen) pickSize() int {
	// small boards finish games (go on finished positions) and keep the model fast; all of 3..8 occur
	return []int{3, 3, 3, 4, 4, 4, 5, 5, 5, 6, 6, 7, 8}[g.r.Intn(13)]
}

func (g *c17Gen) sp() string {
	switch g.r.Intn(12) {
	case 0:
		return "  "
	case 1:
		return "\t"
	}
	return " "
}

func (g *c17Gen) join(words ...string) string {
	s := ""
	if g.r.Intn(15) == 0 {
		s = g.sp()
	}
	for i, w := range words {
		if i > 0 {
			s += g.sp()
		}
		s += w
	}
	switch g.r.Intn(15) {
	case 0:
		s += "\r"
	case 1:
		s += " "
	}
	return s
}

var c17BigMs = []string{"18446744073709551615", "18446744073709551616", "9223372036854775807", "9223372036854775808", "9223372036854",
	"9223372036855", "18446744073709", "4294967296", "99999999999999999999"}

// time arguments of a go; safe = never cutting the search
func (g *c17Gen) goArgs(safe bool) []string {
	r := g.r
	for {
		var a []string
		switch r.Intn(8) {
		case 0, 1, 2:
		case 3:
			a = []string{"movetime", strconv.Itoa(20000 + r.Intn(1000000))}
		case 4:
			t := strconv.Itoa(100000 + r.Intn(10000000))
			a = []string{"wtime", t, "btime", strconv.Itoa(100000 + r.Intn(10000000)), "winc", strconv.Itoa(r.Intn(30000)), "binc", strconv.Itoa(r.Intn(30000))}
			if r.Intn(2) == 0 {
				r.Shuffle(4, func(i, j int) { a[2*i], a[2*j] = a[2*j], a[2*i]; a[2*i+1], a[2*j+1] = a[2*j+1], a[2*i+1] })
			}
		case 5:
			for k := 0; k < 1+r.Intn(4); k++ {
				opt := []string{"movetime", "wtime", "btime", "winc", "binc"}[r.Intn(5)]
				v := strconv.Itoa(r.Intn(3) * (100000 + r.Intn(5000000)))
				if r.Intn(4) == 0 {
					v = c17BigMs[r.Intn(len(c17BigMs))]
				}
				if r.Intn(6) == 0 {
					v = "00" + v
				}
				a = append(a, opt, v)
			}
		case 6:
			a = []string{"wtime", "0", "btime", "0"}
		case 7: // tiny or odd clocks (only kept when !safe)
			a = []string{[]string{"movetime", "wtime", "btime"}[r.Intn(3)], strconv.Itoa(r.Intn(30))}
			if r.Intn(2) == 0 {
				a = append(a, "wtime", strconv.Itoa(1+r.Intn(5)), "btime", strconv.Itoa(1+r.Intn(5)))
			}
		}
		k, ok := c17ParseGoArgs(a)
		if !safe || !ok || k.safe() {
			return a
		}
	}
}

func (g *c17Gen) badGoArgs() []string {
	r := g.r
	switch r.Intn(8) {
	case 0:
		return []string{"movetime"}
	case 1:
		return []string{"depth", "3"}
	case 2:
		return []string{"movetime", "-5"}
	case 3:
		return []string{"wtime", "+5"}
	case 4:
		return []string{"wtime", "1e3"}
	case 5:
		return []string{"movetime", "18446744073709551616"}
	case 6:
		return []string{"wtime", "600000", "btime"}
	}
	return []string{"infinite"}
}

var c17Garbage = []string{"foo", "TEI", "go!", "Position startpos", "ucinewgame", "teinewgame5", "isready?", "position", "position fen x", "position startpos a1",
	"position startpos move a1", "position tps", "position tps x3/x3/x3 1", "position tps x3/x3/x3 3 1", "position tps x3/x3/x3 1 x", "position tps x3/x3 1 1",
	"position tps x3/x3/x2 1 1", "position tps x3/x3/x3/x3 1 1", "position tps x,,x/x3/x3 1 1", "position tps x3/x3/S,x2 1 1", "position tps x3/x3/C,x2 1 1",
	"position tps x3/x,1S2,x/x3 1 1", "position tps x3/x3/x,3,x 1 1", "position tps x9/x9/x9/x9/x9/x9/x9/x9/x9 1 1", "position tps x5/x5/x,,x3/x5/x5 1 1",
	"position tps / 1 1", "position tps , 1 1", "position startpos moves", "position startpos moves zz", "position startpos moves a", "position startpos moves a9",
	"position startpos moves i1", "position startpos moves a1 a1", "position startpos moves Sa1", "position startpos moves a1 h8 Ca1", "position startpos moves a1 b1 3a1>",
	"position startpos moves a1 b1 a1< ", "position startpos moves a1 b1 b1>9", "position startpos moves a1!", "position startpos moves Fa1 b1?", "position startpos moves 1a1",
	"teinewgame 2", "teinewgame 9", "teinewgame 0", "teinewgame -1", "teinewgame 100", "teinewgame x", "teinewgame 5x", "teinewgame +5", "teinewgame 05", "teinewgame 5 6",
	"teinewgame 9223372036854775807", "teinewgame 9223372036854775808", "teinewgame 99999999999999999999999", "teinewgame -9223372036854775809", "teinewgame 4.0",
	"\x00", "\xff\xfe", "go\x00", "tei x", " isready", "tei\u0085", "　", "quit now", "stop", "stop it", "isready", "tei", "\xc2", "\xe2\x80", "go\xe2\x80\x83movetime\xe2\x80\x8330000"}

// one game on one engine: lines declaring ever longer (sometimes shorter) prefixes of a random game, with go's in between
func (g *c17Gen) game(size int, declaredSize string) []string {
	r := g.r
	var out []string
	if declaredSize == "" {
		out = append(out, g.join("teinewgame"))
		size = 5
	} else {
		out = append(out, g.join("teinewgame", declaredSize))
	}
	plies := 2 + r.Intn(4*size)
	if size <= 4 && r.Intn(2) == 0 {
		plies = 200 // to the end
	}
	pol := -1
	if r.Intn(3) == 0 {
		pol = 4 // flats: short road races and full boards
	}
	ps, ms := randomGame(r, tak.Config{Size: size}, plies, pol, false)
	style := r.Intn(2) * r.Intn(2)
	nsteps := 1 + r.Intn(4)
	at := 0
	for s := 0; s < nsteps; s++ {
		// which prefix to declare
		switch {
		case s == nsteps-1 && r.Intn(2) == 0:
			at = len(ms) // the end of the playout (often a finished game on small boards)
		case r.Intn(6) == 0 && at > 0:
			at = r.Intn(at) // a takeback
		default:
			at += r.Intn(len(ms) - at + 1)
		}
		from := 0
		words := []string{"position", "startpos"}
		if r.Intn(3) == 0 && at > 0 {
			from = r.Intn(at + 1)
			words = append([]string{"position", "tps"}, strings.Fields(c17FormatTPS(absOf(ps[from])))...)
		}
		if at > from || r.Intn(4) == 0 {
			words = append(words, "moves")
			for _, m := range ms[from:at] {
				words = append(words, c17FormatMove(m, style))
			}
		}
		out = append(out, g.join(words...))
		switch r.Intn(10) {
		case 0:
			out = append(out, g.join("isready"))
		case 1:
			out = append(out, g.join(append([]string{"go"}, g.badGoArgs()...)...))
		}
		out = append(out, g.join(append([]string{"go"}, g.goArgs(true)...)...))
		switch r.Intn(8) {
		case 0:
			out = append(out, g.join("stop"))
		case 1:
			out = append(out, g.join(append([]string{"go"}, g.goArgs(true)...)...)) // again: the searcher is kept
		}
	}
	return out
}

func (g *c17Gen) sizeWord(size int) string {
	if size == 5 && g.r.Intn(3) == 0 {
		return ""
	}
	return strconv.Itoa(size)
}

// a well-behaved session of several games
func (g *c17Gen) session(maxSize int) []string {
	r := g.r
	var out []string
	if r.Intn(2) == 0 {
		out = append(out, g.join("tei"))
	}
	if r.Intn(3) == 0 {
		out = append(out, g.join("isready"))
	}
	for k := 0; k < 1+r.Intn(3); k++ {
		size := g.pickSize()
		for size > maxSize {
			size = g.pickSize()
		}
		out = append(out, g.game(size, g.sizeWord(size))...)
	}
	return out
}

// consecutive `position` commands whose move lists are equal or extend each other while the declared start differs
// (standard position / a TPS / another TPS of the same size), within one game and across teinewgame: every go must
// analyse the start declared by ITS position command.  The moves are flat placements on squares empty in every start.
func (g *c17Gen) sameMoves(maxSize int) []string {
	r := g.r
	size := 3 + r.Intn(4)
	if size > maxSize {
		size = maxSize
	}
	pickLive := func() *tak.Position {
		for {
			ps, _ := randomGame(r, tak.Config{Size: size}, 3+r.Intn(3*size), -1, false)
			p := ps[2+r.Intn(len(ps)-2)]
			if over, _ := p.GameOver(); !over && len(ps) > 2 {
				return p
			}
		}
	}
	t1, t2 := pickLive(), pickLive()
	var free []tak.Move
	for y := 0; y < size; y++ {
		for x := 0; x < size; x++ {
			if len(t1.At(x, y)) == 0 && len(t2.At(x, y)) == 0 {
				free = append(free, tak.Move{X: int8(x), Y: int8(y), Type: tak.PlaceFlat})
			}
		}
	}
	r.Shuffle(len(free), func(i, j int) { free[i], free[j] = free[j], free[i] })
	if len(free) > 4 {
		free = free[:4]
	}
	starts := [][]string{{"startpos"}, append([]string{"tps"}, strings.Fields(c17FormatTPS(absOf(t1)))...), append([]string{"tps"}, strings.Fields(c17FormatTPS(absOf(t2)))...)}
	out := []string{g.join("teinewgame", strconv.Itoa(size))}
	k := r.Intn(len(free) + 1)
	if k == 0 && len(free) > 0 && r.Intn(3) > 0 {
		k = 1
	}
	last := -1
	for step := 0; step < 2+r.Intn(3); step++ {
		st := r.Intn(3)
		for st == last {
			st = r.Intn(3)
		}
		last = st
		words := append([]string{"position"}, starts[st]...)
		words = append(words, "moves")
		for _, m := range free[:k] {
			words = append(words, c17FormatMove(m, 0))
		}
		out = append(out, g.join(words...), g.join(append([]string{"go"}, g.goArgs(true)...)...))
		if r.Intn(2) == 0 && k < len(free) {
			k += 1 + r.Intn(len(free)-k) // the next list extends this one
		}
		if r.Intn(3) == 0 {
			out = append(out, g.join("teinewgame", strconv.Itoa(size)))
		}
	}
	return out
}

// disorder: drop, swap, duplicate lines, insert malformed ones
// sameLineOtherSize: games on DIFFERENT board sizes on one engine whose position lines are word for word the same, or extend
// one another (startpos and placements that fit the smaller board): whatever the engine keeps about the last position command
// must not outlive teinewgame.
func (g *c17Gen) sameLineOtherSize(maxSize int) []string {
	r := g.r
	var out []string
	if maxSize > 6 {
		maxSize = 6 // the extracted search model is slow on large boards
	}
	small := 3 + r.Intn(2)
	if small > maxSize {
		small = maxSize
	}
	var sqs [][2]int
	for y := 0; y < small; y++ {
		for x := 0; x < small; x++ {
			sqs = append(sqs, [2]int{x, y})
		}
	}
	r.Shuffle(len(sqs), func(i, j int) { sqs[i], sqs[j] = sqs[j], sqs[i] })
	n := 2 + r.Intn(4)
	var mv []string
	for i := 0; i < n && i < len(sqs); i++ {
		t := tak.PlaceFlat
		if i >= 2 && r.Intn(4) == 0 {
			t = tak.PlaceStanding
		}
		mv = append(mv, c17FormatMove(tak.Move{X: int8(sqs[i][0]), Y: int8(sqs[i][1]), Type: t}, 0))
	}
	k := 1 + r.Intn(len(mv))
	games := 2 + r.Intn(2)
	lastSize := 0
	for gi := 0; gi < games; gi++ {
		size := small + r.Intn(maxSize-small+1)
		if size == lastSize && maxSize > small {
			size = small + (size-small+1)%(maxSize-small+1)
		}
		lastSize = size
		out = append(out, g.join("teinewgame", strconv.Itoa(size)))
		words := append([]string{"position", "startpos", "moves"}, mv[:k]...)
		out = append(out, g.join(words...), g.join(append([]string{"go"}, g.goArgs(true)...)...))
		if r.Intn(2) == 0 && k < len(mv) {
			k += 1 + r.Intn(len(mv)-k)
		}
	}
	return out
}

func (g *c17Gen) disorder(lines []string, n int) []string {
	r := g.r
	for k := 0; k < n && len(lines) > 0; k++ {
		i := r.Intn(len(lines))
		switch r.Intn(9) {
		case 0, 1: // drop (e.g. the teinewgame, or the position before a go)
			lines = append(lines[:i:i], lines[i+1:]...)
		case 2:
			j := r.Intn(len(lines))
			lines[i], lines[j] = lines[j], lines[i]
		case 3:
			lines = append(lines[:i+1:i+1], lines[i:]...)
		case 4, 5, 6:
			ins := c17Garbage[r.Intn(len(c17Garbage))]
			lines = append(lines[:i:i], append([]string{ins}, lines[i:]...)...)
		case 7:
			lines = append(lines[:i:i], append([]string{g.join("teinewgame", strconv.Itoa(r.Intn(12)-1))}, lines[i:]...)...)
		case 8:
			lines = append(lines[:i:i], append([]string{""}, lines[i:]...)...)
		}
	}
	return lines
}

// corrupt one character of one line
func (g *c17Gen) corrupt(lines []string) []string {
	r := g.r
	if len(lines) == 0 {
		return lines
	}
	i := r.Intn(len(lines))
	b := []byte(lines[i])
	if len(b) == 0 {
		return lines
	}
	j := r.Intn(len(b))
	alphabet := "12SCx,/ abch<>+-0189\t!"
	switch r.Intn(4) {
	case 0:
		b = append(b[:j:j], b[j+1:]...)
	case 1:
		b[j] = alphabet[r.Intn(len(alphabet))]
	case 2:
		b = append(b[:j:j], append([]byte{alphabet[r.Intn(len(alphabet))]}, b[j:]...)...)
	case 3:
		b = append(b[:j:j], append([]byte{b[j]}, b[j:]...)...)
	}
	if strings.ContainsAny(string(b), "\n") {
		return lines
	}
	lines[i] = string(b)
	return lines
}

func (g *c17Gen) script(id int) *c17Script {
	r := g.r
	s := &c17Script{mode: "L", depth: 1, evk: 2, tbl: 0}
	if r.Intn(3) == 0 {
		s.mode = "R"
	}
	switch r.Intn(10) {
	case 0:
		s.evk = 0
	case 1, 2:
		s.evk = 1
	}
	if r.Intn(2) == 0 {
		s.tbl = []int{16, 64, 256}[r.Intn(3)]
	}
	maxSize := 8
	if r.Intn(4) == 0 {
		s.depth = 2
		maxSize = 4
		if s.evk == 0 {
			s.evk = 2
		}
	}
	if s.evk == 0 {
		maxSize = 6 // the default evaluator is the slow part of the model
	}
	s.rec = s.mode == "L" && r.Intn(3) == 0
	var lines []string
	switch k := r.Intn(20); {
	case k < 7:
		s.family = "session"
		lines = g.session(maxSize)
	case k < 13:
		s.family = "disordered"
		lines = g.disorder(g.session(maxSize), 1+r.Intn(4))
	case k < 16:
		s.family = "corrupted"
		lines = g.session(maxSize)
		for c := 0; c < 1+r.Intn(3); c++ {
			lines = g.corrupt(lines)
		}
	case k == 16 && r.Intn(2) == 0, k == 13:
		s.family = "same-moves-other-start"
		if r.Intn(3) == 0 {
			s.family = "same-line-other-size"
			lines = g.sameLineOtherSize(maxSize)
		} else {
			lines = g.sameMoves(maxSize)
		}
	case k < 17:
		s.family = "quit-midway"
		lines = g.session(maxSize)
		i := r.Intn(len(lines) + 1)
		lines = append(lines[:i:i], append([]string{g.join("quit")}, lines[i:]...)...)
	case k < 18:
		s.family = "no-newgame"
		lines = g.session(maxSize)
		var kept []string
		for _, l := range lines {
			if !strings.Contains(l, "teinewgame") {
				kept = append(kept, l)
			}
		}
		lines = kept
	case k < 19:
		s.family = "garbage"
		for c := 0; c < 1+r.Intn(6); c++ {
			lines = append(lines, c17Garbage[r.Intn(len(c17Garbage))])
		}
	default:
		s.family = "size-change-without-position"
		// the second game never declares a position: its go must not analyse the first game's
		a, b := g.pickSize(), g.pickSize()
		for a > maxSize || b > maxSize {
			a, b = g.pickSize(), g.pickSize()
		}
		lines = g.game(a, strconv.Itoa(a))
		lines = append(lines, g.join("teinewgame", strconv.Itoa(b)), g.join("go"), g.join("position", "startpos"), g.join("go"))
	}
	text := strings.Join(lines, "\n")
	if len(lines) > 0 && !(s.mode == "R" && r.Intn(10) == 0) {
		text += "\n" // mode R sometimes leaves the last line unterminated: Run never sees it
	}
	s.text = []byte(text)
	if r.Intn(12) == 0 {
		// byte-level damage: arbitrary bytes, NUL, invalid UTF-8, Unicode spaces, stray line breaks
		s.family = "bytes"
		b := s.text
		for k := 0; k < 1+r.Intn(6) && len(b) > 0; k++ {
			i := r.Intn(len(b))
			var ins []byte
			switch r.Intn(8) {
			case 0:
				ins = []byte{byte(r.Intn(256))}
			case 1:
				ins = []byte{0}
			case 2:
				ins = []byte([]string{"\u0085", "\u00a0", "\u1680", "\u2003", "\u2028", "\u202f", "\u205f", "\u3000", "\u200b", "\ufeff"}[r.Intn(10)])
			case 3:
				ins = []byte{'\n'}
			case 4:
				ins = []byte{0xe2, 0x80}
			case 5:
				ins = []byte{0xc2}
			case 6: // delete
				b = append(b[:i:i], b[i+1:]...)
				continue
			case 7: // replace
				b[i] = byte(r.Intn(256))
				continue
			}
			b = append(b[:i:i], append(ins, b[i:]...)...)
		}
		s.text = b
	}
	c17MarkTiny(s)
	return s
}

// a script with a go whose clock could cut the search is judged by the oracle only
func c17MarkTiny(s *c17Script) {
	for _, l := range c17Lines(s.text) {
		if w := strings.Fields(l); len(w) > 0 && w[0] == "go" {
			if k, ok := c17ParseGoArgs(w[1:]); ok && !k.safe() {
				s.tiny = true
			}
		}
	}
}

// scripts whose clocks may cut the search (budget of a few ms, or none left): oracle only
func (g *c17Gen) tinyScript() *c17Script {
	r := g.r
	s := &c17Script{mode: "L", depth: 1 + r.Intn(2), evk: 2, tbl: 0, family: "tiny-clock", tiny: true}
	size := 3 + r.Intn(3)
	_, ms := randomGame(r, tak.Config{Size: size}, 2+r.Intn(8), -1, false)
	words := []string{"position", "startpos", "moves"}
	for _, m := range ms {
		words = append(words, c17FormatMove(m, 0))
	}
	lines := []string{"teinewgame " + strconv.Itoa(size), strings.Join(words, " ")}
	for k := 0; k < 1+r.Intn(3); k++ {
		var a []string
		switch r.Intn(4) {
		case 0: // one millisecond left: no thinking time at all
			a = []string{"wtime", "1", "btime", "1"}
		case 1:
			a = []string{"movetime", strconv.Itoa(1 + r.Intn(5))}
		case 2:
			a = []string{"wtime", strconv.Itoa(1 + r.Intn(30)), "btime", strconv.Itoa(1 + r.Intn(30)), "winc", strconv.Itoa(r.Intn(3))}
		default:
			a = g.goArgs(false)
		}
		lines = append(lines, strings.Join(append([]string{"go"}, a...), " "))
	}
	s.text = []byte(strings.Join(lines, "\n") + "\n")
	return s
}

// lowReserveTPS: a live position (sizes 5..8, default piece counts) in which the side to move has placed every flat stone
// and still holds a capstone: no flat placement is legal, capstone placements and slides are.  The stones sit in stacks
// on the diagonal (no two orthogonally adjacent: no road), the rest of the board is empty.
func (g *c17Gen) lowReserveTPS(size int) (string, bool) {
	r := g.r
	pieces := map[int]int{5: 21, 6: 30, 7: 40, 8: 50}[size]
	whiteToMove := r.Intn(2) == 0
	mine, other := pieces, 1+r.Intn(pieces-1)
	b := make([][]tak.Square, size)
	for y := range b {
		b[y] = make([]tak.Square, size)
	}
	var diag []int
	for i := 0; i < size; i++ {
		diag = append(diag, i)
	}
	r.Shuffle(len(diag), func(i, j int) { diag[i], diag[j] = diag[j], diag[i] })
	k := 2 + r.Intn(size-2)
	diag = diag[:k]
	me, op := tak.White, tak.Black
	if !whiteToMove {
		me, op = op, me
	}
	var all []tak.Piece
	for i := 0; i < mine; i++ {
		all = append(all, tak.MakePiece(me, tak.Flat))
	}
	for i := 0; i < other; i++ {
		all = append(all, tak.MakePiece(op, tak.Flat))
	}
	r.Shuffle(len(all), func(i, j int) { all[i], all[j] = all[j], all[i] })
	for i, pc := range all {
		d := diag[i%k]
		b[d][d] = append(b[d][d], pc)
	}
	for _, d := range diag {
		if len(b[d][d]) > 60 {
			return "", false
		}
	}
	move := 2 * (mine + r.Intn(20))
	if !whiteToMove {
		move++
	}
	p, err := tak.FromSquares(tak.Config{Size: size}, b, move)
	if err != nil {
		return "", false
	}
	if over, _ := p.GameOver(); over {
		return "", false
	}
	return c17FormatTPS(absOf(p)), true
}

// lowReserveScript: such a position declared by TPS (optionally moved on by one legal move and back), then go lines with
// clocks that cut the search at once (tiny) or not at all.
func (g *c17Gen) lowReserveScript(tiny bool) *c17Script {
	r := g.r
	s := &c17Script{mode: "L", depth: 1 + r.Intn(2), evk: 2, tbl: []int{0, 64}[r.Intn(2)], family: "low-reserve", tiny: tiny}
	size := 5 + r.Intn(4)
	if !tiny {
		// compared with the extracted model, which searches a few hundred nodes per second: tall stacks mean a thousand moves per
		// node, so depth 1 on 5x5 only; the larger boards and depth 2 are judged by the oracle alone
		if r.Intn(2) == 0 {
			size, s.depth = 5, 1
		} else {
			s.tiny = true
		}
	}
	tps, ok := g.lowReserveTPS(size)
	for !ok {
		tps, ok = g.lowReserveTPS(size)
	}
	lines := []string{"teinewgame " + strconv.Itoa(size), "position tps " + tps}
	for k := 0; k < 1+r.Intn(3); k++ {
		var a []string
		if tiny {
			switch r.Intn(3) {
			case 0:
				a = []string{"wtime", "1", "btime", "1"}
			case 1:
				a = []string{"movetime", "1"}
			default:
				a = []string{"wtime", strconv.Itoa(1 + r.Intn(3)), "btime", strconv.Itoa(1 + r.Intn(3)), "winc", "0", "binc", "0"}
			}
		} else {
			a = g.goArgs(true)
		}
		lines = append(lines, strings.Join(append([]string{"go"}, a...), " "))
	}
	s.text = []byte(strings.Join(lines, "\n") + "\n")
	return s
}

// ---------------------------------------------------------------------------------------------------------------------
// clock probes: which clock does a go obey?  The evaluator waits inside the first evaluation until the searcher's
// context expires.  The expiry can be late (scheduling) but never early, and the clocks are chosen far apart.

type c17Probe struct {
	text   string
	white  bool
	wantMs int64 // expected budget, -1 = no limit
	otherMs int64
}

func (g *c17Gen) probe(kind int) c17Probe {
	r := g.r
	size := 3 + r.Intn(3)
	_, ms := randomGame(r, tak.Config{Size: size}, 2+r.Intn(4), -1, false)
	if kind == 1 && len(ms)%2 == 0 { // kinds 0 and 1 are the same probe for White and for Black to move
		ms = ms[:len(ms)-1]
	}
	if (kind == 0 || kind == 6) && len(ms)%2 == 1 {
		ms = ms[:len(ms)-1]
	}
	if kind == 7 && len(ms)%2 == 0 { // kinds 6 and 7: one millisecond left, for White and for Black to move
		ms = ms[:len(ms)-1]
	}
	words := []string{"position", "startpos", "moves"}
	for _, m := range ms {
		words = append(words, c17FormatMove(m, 0))
	}
	white := len(ms)%2 == 0
	var args []string
	own, other := "500", "5000" // budgets 100 ms / 1000 ms
	want, oth := int64(100), int64(1000)
	switch kind {
	case 2: // the side to move has the larger clock: obeying the other one would expire early
		own, other = "5000", "500"
		want, oth = 1000, 100
	case 3: // the increment of the side to move counts, not the other one
		own, other = "2500", "2500"
		want, oth = 550, 2499
		if white {
			args = []string{"winc", "50", "binc", "2000"}
		} else {
			args = []string{"binc", "50", "winc", "2000"}
		}
	case 4: // movetime caps the clock budget
		args = []string{"movetime", "60"}
		own, other = "5000", "5000"
		want, oth = 60, 1000
	case 5: // ... but does not extend it
		args = []string{"movetime", "3000"}
		own, other = "500", "500"
		want, oth = 100, 3000
	case 6, 7: // one millisecond on the mover's clock: no thinking time at all, the context expires at once
		own, other = "1", "600000"
		want, oth = 0, -1
	case 8: // ... whatever movetime says
		args = []string{"movetime", "5000"}
		own, other = "1", "600000"
		want, oth = 0, -1
	case 9: // ... and whatever the increment
		own, other = "1", "600000"
		want, oth = 0, -1
		if white {
			args = []string{"winc", "1000"}
		} else {
			args = []string{"binc", "1000"}
		}
	}
	if white {
		args = append(args, "wtime", own, "btime", other)
	} else {
		args = append(args, "btime", own, "wtime", other)
	}
	text := "teinewgame " + strconv.Itoa(size) + "\n" + strings.Join(words, " ") + "\n" + "go " + strings.Join(args, " ") + "\n"
	return c17Probe{text: text, white: white, wantMs: want, otherMs: oth}
}

// ---------------------------------------------------------------------------------------------------------------------

func c17EmitFail(c *ctx, s *c17Script, f c17Fail) {
	c.printf("ORACLE-FAIL %s | %s | %s | %s\n", f.class, s.input(), strings.ReplaceAll(f.did, "|", "/"), strings.ReplaceAll(f.want, "|", "/"))
}

func c17Budgets(c *ctx, bin string) {
	r := c.r
	var triples [][3]int64
	// dense grid around the interesting boundaries (ns)
	grid := []int64{0, 1, 999999, 1000000, 1000001, 1250000, 1999999, 2000000, 4999999, 5000000, 5000001, 1e9, 5e9, 6e10, 36e11}
	for _, mt := range grid {
		for _, gt := range grid {
			for _, inc := range grid {
				triples = append(triples, [3]int64{mt, gt, inc})
			}
		}
	}
	// ms-valued clocks as a GUI sends them
	for k := 0; k < 20000*c.scale; k++ {
		triples = append(triples, [3]int64{int64(r.Intn(3)) * int64(r.Intn(100000)) * 1e6, int64(r.Intn(2000000)) * 1e6 * int64(r.Intn(4)+1) / 4, int64(r.Intn(3)) * int64(r.Intn(60000)) * 1e6})
	}
	// small clocks, every value near the 1 ms edge
	for k := 0; k < 20000*c.scale; k++ {
		triples = append(triples, [3]int64{int64(r.Intn(3)) * r.Int63n(20000000), r.Int63n(20000000), int64(r.Intn(2)) * r.Int63n(20000000)})
	}
	// the whole non-negative int64 range (sums overflow)
	for k := 0; k < 30000*c.scale; k++ {
		v := func() int64 {
			switch r.Intn(4) {
			case 0:
				return 0
			case 1:
				return r.Int63()
			case 2:
				return r.Int63() >> uint(r.Intn(63))
			}
			return int64(^uint64(0)>>1) - r.Int63n(1<<uint(1+r.Intn(40)))
		}
		triples = append(triples, [3]int64{v(), v(), v()})
	}
	// gametime/5 + inc within 2 ms below MaxInt64 without overflowing (and just above: the sum wraps): a clamp written as
	// `budget+1ms > gametime` wraps there and leaves a budget of 292 years on a clock of milliseconds.  Whole-millisecond values
	// that fit on a go line first (`go wtime 3 winc 9223372036854`), then the raw neighbourhoods.
	const maxI64 = int64(^uint64(0) >> 1)
	for _, t := range [][3]int64{{0, 3e6, 9223372036854e6}, {0, 8e6, 9223372036853e6}, {1e6, 3e6, 9223372036854e6}, {5e9, 3e6, 9223372036854e6},
		{0, 1e6, 9223372036854e6}, {0, 4e6, 9223372036854e6}, {0, 3e6, 9223372036853e6}} {
		triples = append(triples, t)
	}
	for k := 0; k < 600*c.scale; k++ {
		gt := []int64{1, 999999, 1e6, 1000001, 2e6, 3e6, 8e6, 1e9, 6e10, 36e11}[r.Intn(10)]
		if r.Intn(3) == 0 {
			gt = 1 + r.Int63n(1<<uint(1+r.Intn(50)))
		}
		delta := []int64{0, 1, 2, 175807, 999998, 999999, 1000000, 1000001, 1999999, 2000000, -1, -2, -999999, -1000000}[r.Intn(14)]
		if r.Intn(3) == 0 {
			delta = r.Int63n(2000001)
		}
		inc := maxI64 - gt/5 - delta // delta < 0: the sum overflows (wraps negative)
		if delta < 0 && gt/5 < -delta {
			inc = maxI64
		}
		mt := []int64{0, 0, 1, 1e6, 5e9, maxI64}[r.Intn(6)]
		triples = append(triples, [3]int64{mt, gt, inc})
	}
	// arbitrary int64 (outside the property's domain; model comparison only)
	for k := 0; k < 10000*c.scale; k++ {
		triples = append(triples, [3]int64{int64(r.Uint64()), int64(r.Uint64()), int64(r.Uint64())})
	}
	reqs := make([]string, len(triples))
	for i, t := range triples {
		reqs[i] = fmt.Sprintf("B %d %d %d", t[0], t[1], t[2])
	}
	resp := c17Drive(bin, "budget-"+c.tier, reqs)
	nfail := 0
	for i, t := range triples {
		got, err := strconv.ParseInt(strings.TrimPrefix(resp[i], "B "), 10, 64)
		if err != nil {
			panic("bad budget response " + resp[i])
		}
		c.printf("CASE B %d %d %d | %d\n", t[0], t[1], t[2], got)
		c.stat("budget_triples", 1)
		if t[0] >= 0 && t[1] >= 0 && t[2] >= 0 {
			c.stat("budget_in_domain", 1)
		}
		if msg := c17BudgetOracle(t[0], t[1], t[2], got); msg != "" {
			nfail++
			if nfail <= 20 {
				c.printf("ORACLE-FAIL budget-exceeds-clock | B %d %d %d | calcBudget = %d: %s | gametime > 0 -> budget < gametime; movetime > 0 -> budget <= movetime\n", t[0], t[1], t[2], got, msg)
			}
		}
	}
}

func c17Probes(c *ctx, bin string, n int) {
	g := &c17Gen{r: c.r}
	probes := make([]c17Probe, n)
	for i := range probes {
		probes[i] = g.probe(i % 10)
	}
	const tol = 5 // ms: the first evaluation starts a little after the context was made
	pending := make([]int, n)
	for i := range pending {
		pending[i] = i
	}
	lastObs := make([]string, n)
	for attempt := 0; attempt < 4 && len(pending) > 0; attempt++ {
		var reqs []string
		for _, i := range pending {
			reqs = append(reqs, fmt.Sprintf("T %d %d %s", i, 2600, hex.EncodeToString([]byte(probes[i].text))))
		}
		resp := c17Drive(bin, "probe-"+c.tier, reqs)
		var again []int
		for k, i := range pending {
			f := strings.Fields(resp[k])
			p := probes[i]
			ns, err := strconv.ParseInt(f[2], 10, 64)
			lastObs[i] = resp[k]
			if err == nil && ns == -2 && p.wantMs == 0 {
				c.stat("clock_probes_ok", 1) // cut before the first evaluation: expired at once
				continue
			}
			if err != nil || ns == -2 {
				again = append(again, i) // panic / no evaluation: reported below
				continue
			}
			ms := ns / 1000000
			early := ns >= 0 && ms < p.wantMs-tol
			late := ns < 0 || ms >= p.wantMs+400
			if early {
				// never a scheduling artefact
				c.printf("ORACLE-FAIL clock-wiring | T %s | the searcher's context expired after %d ms | the budget of the side to move: %d ms\n",
					hex.EncodeToString([]byte(p.text)), ms, p.wantMs)
				continue
			}
			if late {
				again = append(again, i)
				continue
			}
			c.stat("clock_probes_ok", 1)
		}
		pending = again
	}
	for _, i := range pending {
		p := probes[i]
		if f := strings.Fields(lastObs[i]); p.wantMs == 0 && len(f) > 2 && f[2] == "-1" {
			c.printf("ORACLE-FAIL clock-ignored | T %s | four attempts: the searcher's context never expired within 2600 ms (last observation %q) | the side to move has 1 ms left: the budget is 0 and the search must be stopped at once\n",
				hex.EncodeToString([]byte(p.text)), lastObs[i])
			continue
		}
		c.printf("ORACLE-FAIL clock-wiring | T %s | four attempts, last observation %q (ns until the searcher's context expired; -1 = not within 2600 ms) | the budget of the side to move: %d ms (the other side's clock would give %d ms)\n",
			hex.EncodeToString([]byte(p.text)), lastObs[i], p.wantMs, p.otherMs)
	}
	c.stat("clock_probes", int64(n))
}

func c17RunScripts(c *ctx, bin string, tag string, scripts []*c17Script) {
	reqs := make([]string, len(scripts))
	for i, s := range scripts {
		reqs[i] = fmt.Sprintf("S %d %s %d %d %d %d %s", i, s.mode, s.depth, s.evk, s.tbl, b2i(s.rec), hex.EncodeToString(s.text))
	}
	resp := c17Drive(bin, tag, reqs)
	samples := 0
	for i, s := range scripts {
		recs := c17ParseResp(resp[i])
		fails, st := c17Judge(s, recs)
		for k, v := range st {
			c.stat(k, v)
		}
		seen := map[string]bool{}
		for _, f := range fails {
			if !seen[f.class] {
				c17EmitFail(c, s, f)
				seen[f.class] = true
			}
		}
		c.stat("scripts", 1)
		c.stat("family_"+s.family, 1)
		c.stat("mode_"+s.mode, 1)
		c.stat(fmt.Sprintf("depth_%d", s.depth), 1)
		lines := c17Lines(s.text)
		c.stat("lines", int64(len(lines)))
		for _, l := range lines {
			w := strings.Fields(l)
			if len(w) > 0 {
				switch w[0] {
				case "go", "position", "teinewgame":
					c.stat("cmd_"+w[0], 1)
					if w[0] == "teinewgame" && len(w) > 1 {
						if n, err := strconv.Atoi(w[1]); err == nil && n >= 3 && n <= 8 {
							c.stat(fmt.Sprintf("newgame_size_%d", n), 1)
						}
					}
				}
			}
		}
		for _, r := range recs {
			switch {
			case strings.HasPrefix(r.st, "P"):
				c.stat("run_panic", 1)
			case r.st == "E":
				c.stat("run_error", 1)
			default:
				c.stat("run_nil", 1)
			}
			for _, l := range r.out {
				if strings.HasPrefix(l, "bestmove") {
					c.stat("bestmoves", 1)
				}
			}
		}
		if s.tiny {
			c.stat("tiny_clock_scripts", 1)
			continue // the clock may cut the search: not deterministic, not compared with the model
		}
		l1, l2 := c17L1L2(recs)
		c.printf("CASE %s | %s | %s\n", s.input(), l1, l2)
		if samples < 4 && s.family != "garbage" && len(s.text) < 300 {
			samples++
			c.printf("SAMPLE %s (mode %s, depth %d): %q -> %s\n", s.family, s.mode, s.depth, string(s.text), l1)
		}
	}
}

func runC17(c *ctx) {
	bin := c17Build()
	if c.tier == "replay" {
		c17Replay(c, bin)
		return
	}
	g := &c17Gen{r: c.r}
	n := 1000
	if c.tier == "thorough" {
		n = 20000
	}
	scripts := make([]*c17Script, 0, n+100)
	// fixed scripts: the repaired crashes and the hand-made histories of the property text
	for _, fx := range c17Fixed() {
		scripts = append(scripts, fx)
	}
	for i := 0; i < n; i++ {
		scripts = append(scripts, g.script(i))
	}
	for i := 0; i < 40*c.scale; i++ {
		scripts = append(scripts, g.tinyScript())
	}
	for i := 0; i < 60*c.scale; i++ {
		scripts = append(scripts, g.lowReserveScript(i%3 != 0))
	}
	c17RunScripts(c, bin, "scripts-"+c.tier, scripts)
	c17Budgets(c, bin)
	c17Probes(c, bin, 10)
	c17Clients(c, bin)
	c17Selfplay(c)
}

// ---------------------------------------------------------------------------------------------------------------------
// c17Clients: the CLIENT side (tei.Client / tei.Player.TEIGetMove, what selfplay drives tournaments through), run in tei.test
// against an engine PROCESS that is either scripted (rules: the n-th `go` / `position` / ... line is answered with given bytes,
// stdout or stdin closed) or the real Engine.Run.  Every session is
//   - judged by the oracle: for every position handed to TEIGetMove the engine process must receive a `position tps` line that
//     declares exactly that position - squares, side to move AND move number (class client-position-line-wrong) - followed by the
//     go line that carries the deadline and the four clock values in whole milliseconds (client-go-line-wrong; a context with
//     a deadline must never reach the engine as `movetime 0` or without movetime: client-deadline-uncapped); a clean
//     `bestmove <move>` answer must come back as that move (client-move-wrong); a player of an earlier game is refused
//     before anything is written (client-dead-player);
//   - a model case: the lines the client wrote and what every call returned (move / error class / panic class / hang) = L1,
//     compared with the extracted coq/TeiClient.v run against the same engine answers (or against Tei.v + TeiInst.v for the real
//     engine).
// One client serves several games; within and across games the same board with the same side to move comes back at later move
// numbers (shuffles, transpositions), and boards recur on other sizes.

type c17Sess struct {
	family string
	items  []string  // as sent to tei.test
	asked  []*aboard // per P/Q/M item, the position
	dl     []string  // per P/Q/M item: "-" or the offset in ms
	tc     []string  // per P/Q/M item: "-" or "w,b,wi,bi"
	goAns  []string  // per P/Q/M item: the clean move text the engine was told to answer with ("" = no demand)
	cut    bool      // the engine closed a pipe: nothing is demanded of later answers
	cutAt  []bool    // per P/Q/M item: cut when it was asked
	dead   []bool    // per P/Q/M item: the player asked belongs to an earlier game
}

func (s *c17Sess) ask(kind string, player int, dl, tc string, a *aboard) {
	tps := c17FormatTPS(a)
	switch kind {
	case "P":
		s.items = append(s.items, "P "+tps)
		dl, tc = "-", "-"
	case "Q":
		s.items = append(s.items, fmt.Sprintf("Q %d %s %s %s", player, dl, tc, tps))
	case "M":
		s.items = append(s.items, fmt.Sprintf("M %d %s %s", player, dl, tps))
		tc = "-"
	}
	s.asked = append(s.asked, a)
	s.dl = append(s.dl, dl)
	s.tc = append(s.tc, tc)
	s.goAns = append(s.goAns, "")
	s.cutAt = append(s.cutAt, s.cut)
	s.dead = append(s.dead, false)
}

func (s *c17Sess) rule(kind string, n int, flags string, out string) {
	hx := "-"
	if out != "" {
		hx = hex.EncodeToString([]byte(out))
	}
	if flags != "-" {
		s.cut = true
	}
	// rules go first: the engine process reads them when it starts
	s.items = append([]string{fmt.Sprintf("E %s %d %s %s", kind, n, flags, hx)}, s.items...)
}

// the oracle's go line: deadline and clock values in whole milliseconds, zero values left out
func c17GoLineOracle(movetimeMs string, tc string) (string, bool) {
	w := []string{"go"}
	if movetimeMs != "" {
		w = append(w, "movetime", movetimeMs)
	}
	if tc != "-" {
		v := strings.Split(tc, ",")
		for i, key := range []string{"wtime", "btime", "winc", "binc"} {
			d, _ := strconv.ParseInt(v[i], 10, 64)
			if d == 0 {
				continue
			}
			if d < 1000000 {
				return "", false // cannot be said in milliseconds: the client must refuse
			}
			w = append(w, key, strconv.FormatInt(d/1000000, 10))
		}
	}
	return strings.Join(w, " "), true
}

var c17Spaces = []string{" ", "  ", "\t", " \t ", "\u00a0", "\u2003", "\u3000", "\v", "\f", "\u0085", "\u1680", "\u2028", "\u202f"}
var c17BlankLines = []string{"\n", " \n", "\t\r\n", "\r\n", "\u00a0\n", " \u2003 \u3000 \n", "\v\f\n"}
var c17TcValues = []int64{0, 0, 0, 1, 999, 999999, 1000000, 1000001, 1999999, 2000000, 60000000000, 600000000000, 1 << 40, 1<<62 + 12345,
	1<<63 - 1, -1, -1000000, -60000000000, -1 << 63}

func c17GenSessions(c *ctx) []*c17Sess {
	r := c.r
	var ss []*c17Sess
	somePos := func(size, plies int) []*aboard {
		ps, _ := randomGame(r, tak.Config{Size: size}, plies, -1, false)
		var out []*aboard
		for _, p := range ps {
			if over, _ := p.GameOver(); !over {
				out = append(out, absOf(p))
			}
		}
		return out
	}
	moveText := func(a *aboard) (string, string) { // (text on the wire, clean text)
		ms := c17Candidates(a)
		m := ms[r.Intn(len(ms))]
		t := c17FormatMove(m, r.Intn(2))
		w := t
		if r.Intn(4) == 0 {
			w += []string{"!", "?", "'", "*", "!!", "?!", "'!"}[r.Intn(7)]
		}
		return w, t
	}
	// two sessions that end in a client waiting for ever come first (each costs the watchdog's 3 s, in parallel with the rest):
	// a scripted engine that does not answer a go, and the real engine asked for a move in a finished game
	{
		s := &c17Sess{family: "hang"}
		s.items = append(s.items, "G 5")
		ps := somePos(5, 6)
		s.ask("P", -1, "-", "-", ps[len(ps)-1])
		s.ask("P", -1, "-", "-", ps[0])
		s.rule("go", 2, "-", "info depth 1\nbestmov a1\n")
		ss = append(ss, s)
		s = &c17Sess{family: "real-finished"}
		s.items = append(s.items, "E real 1", "G 3")
		for _, p := range somePos(3, 4) {
			s.ask("P", -1, "-", "-", p)
		}
		fin, _ := c17ParseTPS("1,1,1/x3/2,2,x", "2", "3") // white owns the bottom row
		s.ask("P", -1, "-", "-", fin)
		ss = append(ss, s)
	}
	// (a) position sessions (default engine): 1-3 games, repeated boards at later move numbers, boards of earlier games
	for k := 0; k < 12*c.scale; k++ {
		s := &c17Sess{family: "positions"}
		games := 1 + r.Intn(3)
		var carry []*aboard // positions of earlier games of this client
		for g := 0; g < games; g++ {
			size := 3 + r.Intn(6)
			if g > 0 && r.Intn(2) == 0 && len(carry) > 0 {
				size = carry[0].n
			}
			s.items = append(s.items, "G "+strconv.Itoa(size))
			ps, _ := randomGame(r, tak.Config{Size: size}, 4+r.Intn(20), -1, false)
			var asked []*aboard
			for i, p := range ps {
				if i < 2 && r.Intn(2) == 0 {
					continue
				}
				if over, _ := p.GameOver(); over {
					continue
				}
				a := absOf(p)
				asked = append(asked, a)
				// the same board and side to move again, 2 / 4 / 6 plies later (a shuffle came back to it)
				if r.Intn(3) == 0 {
					b := a.clone()
					b.ply += 2 * (1 + r.Intn(3))
					asked = append(asked, b)
				}
				// a position of an earlier game of the same size once more, at another move number
				if r.Intn(5) == 0 {
					for _, o := range carry {
						if o.n == size {
							b := o.clone()
							b.ply += 2 * r.Intn(4)
							asked = append(asked, b)
							break
						}
					}
				}
			}
			for _, a := range asked {
				s.ask("P", -1, "-", "-", a)
			}
			carry = append(asked, carry...)
		}
		ss = append(ss, s)
	}
	// (b) engine answers: clean, decorated, blank lines, malformed bestmove lines, early EOF, dead engine, stale output
	for k := 0; k < 70*c.scale; k++ {
		s := &c17Sess{family: "answers"}
		size := 3 + r.Intn(6)
		s.items = append(s.items, "G "+strconv.Itoa(size))
		ps := somePos(size, 3+r.Intn(8))
		if len(ps) > 5 {
			ps = ps[len(ps)-5:]
		}
		kind := "P"
		if r.Intn(6) == 0 {
			kind = "M"
		}
		for i, a := range ps {
			s.ask(kind, -1, "-", "-", a)
			n := i + 1
			wire, clean := moveText(a)
			sp := func() string { return c17Spaces[r.Intn(len(c17Spaces))] }
			v := r.Intn(20)
			desync := c17Desync(s)
			if (s.cut || desync) && (v == 13 || v == 14 || v == 15) {
				v = 0 // once the engine has closed a pipe, or left extra output in it, the client no longer waits for it: a close would race
			}
			if s.cut && (v == 16 || v == 17) {
				v = 1
			}
			switch {
			case v < 5: // clean
				s.rule("go", n, "-", "bestmove "+wire+"\n")
				s.goAns[len(s.goAns)-1] = clean
			case v < 8: // info lines first, odd spacing, CRLF
				out := ""
				for j := r.Intn(3); j >= 0; j-- {
					out += []string{"info depth 3 time 0 nodes 17 score cp 5 pv a1 b2", "info string bestmove is near", "readyok", "bestmoves a1", "Bestmove a1", "id name x"}[r.Intn(6)] + "\n"
				}
				out += sp() + "bestmove" + sp() + wire + sp() + []string{"\n", "\r\n"}[r.Intn(2)]
				s.rule("go", n, "-", out)
				s.goAns[len(s.goAns)-1] = clean
			case v < 10: // a blank line before the answer
				out := ""
				if r.Intn(2) == 0 {
					out = "info depth 1\n"
				}
				s.rule("go", n, "-", out+c17BlankLines[r.Intn(len(c17BlankLines))]+"bestmove "+wire+"\n")
			case v < 13: // malformed bestmove lines
				bad := []string{"bestmove", "bestmove ", "bestmove a1 b2", "bestmove " + wire + " ponder a1", "bestmove zz", "bestmove 9a1", "bestmove a9",
					"bestmove C", "bestmove 3a1>21", "bestmove a1>3", "bestmove \xff\xfe", "bestmove i1", "bestmove 1", "bestmove a1+0", "bestmove Sa1>", "bestmove (none)"}
				s.rule("go", n, "-", bad[r.Intn(len(bad))]+"\n")
			case v < 15: // early EOF: stdout closed with or without a partial line; later calls meet EOF again
				s.rule("go", n, "c", []string{"", "bestmo", "bestmove a1", "info depth 1\n", "info depth 1\nbestmove"}[r.Intn(5)])
			case v < 16: // the engine exits: later writes fail
				s.rule("go", n, "x", []string{"", "bestmove " + wire + "\n", "bestmove"}[r.Intn(3)])
				if r.Intn(2) == 0 {
					s.goAns[len(s.goAns)-1] = ""
				}
			case v < 17: // output for a command the client does not wait on: met by the next reading loop
				s.rule("position", n, "-", []string{"info string position set\n", "\n", "bestmove " + wire + "\n", "bestmove\n"}[r.Intn(4)])
			case v < 18:
				s.rule("teinewgame", 1, "-", []string{"info string new game\n", " \n", "bestmove a1\nbestmove b1\n"}[r.Intn(3)])
			default: // default engine: bestmove a1
				s.goAns[len(s.goAns)-1] = "a1"
			}
		}
		if r.Intn(3) == 0 {
			s.items = append(s.items, "G "+strconv.Itoa(3+r.Intn(6)))
			s.ask("P", -1, "-", "-", ps[0])
		}
		ss = append(ss, s)
	}
	// (c) deadlines and time controls
	for k := 0; k < 50*c.scale; k++ {
		s := &c17Sess{family: "clocks"}
		size := 3 + r.Intn(6)
		s.items = append(s.items, "G "+strconv.Itoa(size))
		ps := somePos(size, 2+r.Intn(6))
		for _, a := range ps {
			dl := "-"
			switch r.Intn(6) {
			case 0:
				dl = strconv.Itoa(-r.Intn(5000)) // passed
			case 1, 2:
				dl = strconv.Itoa(3600000 * (1 + r.Intn(200)))
			case 3:
				dl = "us" + strconv.Itoa(1+r.Intn(999)) // less than a millisecond ahead
			}
			tc := "-"
			if r.Intn(5) != 0 {
				var v [4]string
				for i := range v {
					x := c17TcValues[r.Intn(len(c17TcValues))]
					if r.Intn(3) == 0 {
						x = r.Int63n(1 << uint(1+r.Intn(62)))
					}
					if r.Intn(2) == 0 && x > 1000000 {
						x = x / 1000000 * 1000000 // GUI clocks: whole milliseconds
					}
					v[i] = strconv.FormatInt(x, 10)
				}
				tc = strings.Join(v[:], ",")
			}
			if r.Intn(8) == 0 {
				s.ask("M", -1, dl, "-", a)
			} else {
				s.ask("Q", -1, dl, tc, a)
			}
			s.goAns[len(s.goAns)-1] = "a1"
		}
		ss = append(ss, s)
	}
	// (d) dead players: a player of an earlier game is asked after NewGame
	for k := 0; k < 12*c.scale; k++ {
		s := &c17Sess{family: "dead-player"}
		games := 2 + r.Intn(3)
		size := 3 + r.Intn(6)
		ps := somePos(size, 6)
		for g := 0; g < games; g++ {
			s.items = append(s.items, "G "+strconv.Itoa(size))
			s.ask("Q", g, "-", "-", ps[r.Intn(len(ps))])
			s.goAns[len(s.goAns)-1] = "a1"
		}
		kind := "Q"
		if r.Intn(3) == 0 {
			kind = "M"
		}
		pl := r.Intn(games)
		if k%4 == 0 {
			pl = games - 1 // the live one after all
		}
		s.ask(kind, pl, "-", "-", ps[0])
		s.dead[len(s.dead)-1] = pl != games-1
		ss = append(ss, s)
	}
	// (e) the handshake: NewClient against engines that answer `tei` oddly
	for k, out := range []string{"id name x\nid author y\nteiok\n", "  teiok  \r\n", "\nteiok\n", "teiok extra words\n", "TEIOK\nteiok\n", "id\n"} {
		s := &c17Sess{family: "handshake"}
		flags := "-"
		if k == 5 {
			flags = "c"
		}
		s.items = append(s.items, "G 5")
		s.ask("P", -1, "-", "-", somePos(5, 3)[0])
		s.rule("tei", 1, flags, out)
		ss = append(ss, s)
	}
	// (f) the real engine (Engine.Run in the process; depth 1, EvaluateWinner): whole short games, the client's answer is played
	for k := 0; k < 10*c.scale; k++ {
		s := &c17Sess{family: "real"}
		s.items = append(s.items, "E real 1")
		size := 3 + r.Intn(3)
		s.items = append(s.items, "G "+strconv.Itoa(size))
		for _, a := range somePos(size, 3+r.Intn(6)) {
			if r.Intn(3) == 0 {
				s.ask("Q", -1, "-", "600000000000,600000000000,1000000000,1000000000", a)
			} else {
				s.ask("P", -1, "-", "-", a)
			}
		}
		if k%3 == 0 { // a position of another size: the engine refuses it and exits
			s.ask("P", -1, "-", "-", somePos(size%6+3, 2)[0])
		}
		ss = append(ss, s)
	}
	return ss
}

func c17Clients(c *ctx, bin string) {
	ss := c17GenSessions(c)
	var reqs []string
	for i, s := range ss {
		reqs = append(reqs, fmt.Sprintf("K %d %s", i, hex.EncodeToString([]byte(strings.Join(s.items, "\n")))))
	}
	// formatTime on its own (unexported, reached in-package)
	var ftimes []int64
	for _, v := range c17TcValues {
		ftimes = append(ftimes, v)
	}
	for i := 0; i < 300*c.scale; i++ {
		v := c.r.Int63n(1 << uint(1+c.r.Intn(62)))
		if c.r.Intn(4) == 0 {
			v = -v
		}
		ftimes = append(ftimes, v)
	}
	for _, v := range ftimes {
		reqs = append(reqs, fmt.Sprintf("F %d", v))
	}
	resp := c17Drive(bin, "clients-"+c.tier, reqs)
	for i, v := range ftimes {
		got := strings.TrimPrefix(resp[len(ss)+i], "F ")
		want := "0"
		if v >= 1000000 {
			want = strconv.FormatInt(v/1000000, 10)
		}
		if got != want {
			c.printf("ORACLE-FAIL format-time-wrong | F %d | formatTime = %q | %q: whole milliseconds, nothing below zero\n", v, got, want)
		}
		c.stat("format_time_cases", 1)
		c.printf("CASE F %d | %s\n", v, got)
	}
	samples := 0
	for i, s := range ss {
		rr := resp[i]
		f := strings.Split(rr, " ")
		in := "client-session;" + strings.Join(s.items, ";")
		if len(f) < 3 || f[0] != "K" || strings.HasPrefix(f[2], "E:") {
			c.printf("ORACLE-FAIL client-driver | %s | %s | a K response\n", in, rr)
			continue
		}
		c.stat("client_sessions", 1)
		c.stat("client_family_"+s.family, 1)
		results := strings.Split(f[2], ";")
		var recv, trans []string // received lines (text), transcript entries "answer hex:flags"
		if len(f) > 3 {
			raw, _ := hex.DecodeString(f[3])
			for _, l := range strings.Split(strings.TrimRight(string(raw), "\n"), "\n") {
				w := strings.Fields(l)
				if len(w) != 3 {
					continue
				}
				t := ""
				if w[0] != "-" {
					b, _ := hex.DecodeString(w[0])
					t = string(b)
				}
				recv = append(recv, t)
				trans = append(trans, w[1]+":"+w[2])
			}
		}
		// walk the results and the received lines together
		li := 0
		next := func() (string, bool) {
			if li < len(recv) {
				li++
				return recv[li-1], true
			}
			return "", false
		}
		if l, ok := next(); !ok || l != "tei" {
			c.printf("ORACLE-FAIL client-protocol | %s | first line %q | tei\n", in, l)
			continue
		}
		modelItems := append([]string(nil), s.items...)
		qi := 0 // index into asked
		ri := 1 // index into results (0 is N:...)
		bad := false
		gErr := false
		if results[0] != "N:ok" {
			c.stat("client_handshake_"+strings.ReplaceAll(results[0], ":", "_"), 1)
		}
		for ii, it := range s.items {
			if results[0] != "N:ok" || bad {
				break
			}
			if it[0] == 'E' {
				continue
			}
			if ri >= len(results) {
				break // the session ended at a panic or hang
			}
			res := results[ri]
			ri++
			if it[0] == 'G' {
				if res != "G:ok" {
					gErr = true // NewGame failed after bumping the client's game number: the current player is dead too (not judged)
				}
				if res == "G:ok" {
					if l, ok := next(); !ok || l != "teinewgame "+it[2:] {
						c.printf("ORACLE-FAIL client-protocol | %s | NewGame(%s) wrote %q | teinewgame %s\n", in, it[2:], l, it[2:])
						bad = true
					}
				}
				continue
			}
			want, dl, tc, ans := s.asked[qi], s.dl[qi], s.tc[qi], s.goAns[qi]
			qi++
			c.stat("client_calls", 1)
			if strings.HasPrefix(res, "P:ok:") {
				c.stat("client_result_ok", 1)
			} else {
				c.stat("client_result_"+strings.ReplaceAll(strings.SplitN(res, ":", 2)[1], ":", "_"), 1)
			}
			// a player of an earlier game must not be served: nothing may be written for it
			if !gErr && s.dead[qi-1] != (res == "P:panic:dead") {
				c.printf("ORACLE-FAIL client-dead-player | %s | request %d (player of an earlier game: %v) returned %s | only the player of the client's current game is served; the others panic before anything is written\n", in, qi, s.dead[qi-1], res)
				bad = true
				continue
			}
			if res == "P:panic:dead" || res == "P:err:sendpos" || res == "P:panic:getmove-sendpos" {
				continue // nothing reached the engine
			}
			// the position line
			l, ok := next()
			w := strings.Fields(l)
			good := ok && len(w) == 5 && w[0] == "position" && w[1] == "tps"
			var got *aboard
			if good {
				var cls int
				got, cls = c17ParseTPS(w[2], w[3], w[4])
				good = cls == cOK && got != nil
			}
			c.stat("client_position_lines", 1)
			if !good || c17Enc(got) != c17Enc(want) {
				c.printf("ORACLE-FAIL client-position-line-wrong | %s | request %d: the engine received %q | a line declaring %s (%s)\n", in, qi, l, c17FormatTPS(want), c17Enc(want))
				bad = true
				continue
			}
			// the go line
			mt := ""
			var goWant string
			var sayable bool
			// the deadline as the harness set it: "-" none, "us<n>" n microseconds ahead, otherwise an offset in ms (<= 0: an hour ago)
			dlShort, dlOff := false, int64(0)
			setModelDl := func(ns int64) {
				g := strings.Split(modelItems[ii], " ")
				g[2] = "=" + strconv.FormatInt(ns, 10)
				modelItems[ii] = strings.Join(g, " ")
			}
			if strings.HasPrefix(dl, "us") {
				us, _ := strconv.ParseInt(dl[2:], 10, 64)
				dlShort = true
				setModelDl(us * 1000)
			} else if dl != "-" {
				dlOff, _ = strconv.ParseInt(dl, 10, 64)
				if dlOff <= 0 {
					dlShort = true
					setModelDl(-3600000000000)
				} else {
					setModelDl(dlOff * 1000000) // replaced below by what the client measured, when it wrote a go line
				}
			}
			if res == "P:err:short" || res == "P:panic:getmove-short" {
				if _, sayable = c17GoLineOracle("", tc); sayable && !dlShort {
					c.printf("ORACLE-FAIL client-go-line-wrong | %s | request %d refused as too short | deadline %s and clocks %s can be said in milliseconds\n", in, qi, dl, tc)
					bad = true
				}
				if dlShort {
					c.stat("client_deadline_refused", 1)
				}
				continue
			}
			l, ok = next()
			if !ok {
				if s.family == "real" || strings.HasPrefix(s.family, "real") {
					continue // the engine had exited before it read the go line
				}
				c.printf("ORACLE-FAIL client-protocol | %s | request %d: position line not followed by a go line | position, then go\n", in, qi)
				bad = true
				continue
			}
			w = strings.Fields(l)
			if dl != "-" {
				// a context with a deadline must cap the engine: `movetime 0` (or no movetime) is read by the engine as "no limit"
				if len(w) >= 3 && w[1] == "movetime" {
					mt = w[2]
				}
				x, err := strconv.ParseInt(mt, 10, 64)
				if dlShort || err != nil || x <= 0 {
					c.printf("ORACLE-FAIL client-deadline-uncapped | %s | request %d: deadline %s (less than 1 ms ahead: %v), go line %q | a deadline less than a millisecond away is refused (Timeout too short); otherwise movetime = the time left in whole ms, at least 1\n", in, qi, dl, dlShort, l)
					bad = true
					continue
				}
				// a future one lies within 20 s below the offset (measured by the client)
				if x > dlOff || x < dlOff-20000 {
					c.printf("ORACLE-FAIL client-go-line-wrong | %s | request %d: deadline %s ms from now, go line %q | movetime = the time left in ms\n", in, qi, dl, l)
					bad = true
					continue
				}
				// the model is given the time left as the client measured it
				setModelDl(x * 1000000)
			}
			goWant, sayable = c17GoLineOracle(mt, tc)
			c.stat("client_go_lines", 1)
			if !sayable || l != goWant {
				c.printf("ORACLE-FAIL client-go-line-wrong | %s | request %d: go line %q | %q (clocks %s)\n", in, qi, l, goWant, tc)
				bad = true
				continue
			}
			// the answer
			if ans != "" && s.family != "real" && !s.cutAt[qi-1] {
				m, cls := c17ParseMove(ans)
				wantRes := fmt.Sprintf("P:ok:%d,%d,%d,%d", m.X, m.Y, m.Type, m.Slides)
				if cls == cOK && res != wantRes && !c17Desync(s) {
					c.printf("ORACLE-FAIL client-move-wrong | %s | request %d: the engine answered bestmove %s, the call returned %s | %s\n", in, qi, ans, res, wantRes)
					bad = true
				}
			}
			if s.family == "real" && strings.HasPrefix(res, "P:ok:") {
				// the real engine's move must be legal in the position asked (rules oracle)
				var x, y, t, sl int
				fmt.Sscanf(res, "P:ok:%d,%d,%d,%d", &x, &y, &t, &sl)
				if want.rulesMove(tak.Move{X: int8(x), Y: int8(y), Type: tak.MoveType(t), Slides: tak.Slides(sl)}) == nil {
					c.printf("ORACLE-FAIL client-move-illegal | %s | request %d: TEIGetMove returned %s | a move legal in %s\n", in, qi, res, c17FormatTPS(want))
					bad = true
				}
				c.stat("client_real_moves", 1)
			}
			if res == "P:panic:blank" {
				c.stat("client_blank_line_panics", 1)
			}
		}
		if bad {
			continue
		}
		if strings.HasPrefix(s.family, "real") && strings.HasSuffix(f[2], "P:err:server") && len(recv) > 0 && strings.HasPrefix(recv[len(recv)-1], "go") {
			// the real engine refused the position line and exited; whether the go line still got into the pipe is a race
			// (the call fails either way): the model's engine process takes nothing after its exit
			recv = recv[:len(recv)-1]
		}
		tr := "-"
		if len(trans) > 0 {
			tr = strings.Join(trans, ",")
		}
		var hexRecv []string
		for _, l := range recv {
			hexRecv = append(hexRecv, hex.EncodeToString([]byte(l)))
		}
		c.printf("CASE K %s %s | %s %s\n", hex.EncodeToString([]byte(strings.Join(modelItems, "\n"))), tr, f[2], strings.Join(hexRecv, ","))
		if samples < 6 && len(s.items) < 8 && s.family != "positions" {
			samples++
			c.printf("SAMPLE client %s: %s -> %s ; engine received %q\n", s.family, strings.Join(s.items, " ; "), f[2], recv)
		}
	}
}

// sessions in which an engine answer can be consumed by a later call (output for position/teinewgame lines, two bestmoves):
// which call gets which answer is the model's business, the oracle demands nothing about the moves
func c17Desync(s *c17Sess) bool {
	for _, it := range s.items {
		if strings.HasPrefix(it, "E position ") || strings.HasPrefix(it, "E teinewgame ") {
			return true
		}
	}
	return false
}

// c17LongGame: a legal game of n plies in one `position startpos moves ...` line - after the two opening placements the two
// stones walk up and down their files for ever (no rule of the game ends that).  The line is longer than any fixed read buffer
// (4096 = bufio's default, 8192): an engine that reads its commands with a bounded buffer loses the command.
func c17LongGame(size, plies int) string {
	far := string([]byte{byte('a' + size - 1)})
	top := strconv.Itoa(size)
	below := strconv.Itoa(size - 1)
	w := []string{"position", "startpos", "moves", "a1", far + top}
	cyc := []string{far + top + "-", "a1+", far + below + "+", "a2-"}
	for i := 0; len(w)-3 < plies; i++ {
		w = append(w, cyc[i%4])
	}
	return strings.Join(w, " ")
}

// ---------------------------------------------------------------------------------------------------------------------
// c17Selfplay: the SYSTEM - cmd/internal/selfplay's `worker` (in build/selfplay.test, harness/overlay/selfplay_driver_test.go.txt)
// plays whole games between two engine processes (the real Engine.Run at depth 1-2, or the scripted process): per game the moves,
// the final position and the winner, and every line each engine process received.  Oracle: the moves are legal one after the other
// from the opening (rules oracle) and lead to the reported position; the winner is the outcome of that position when the game is
// over there, nobody when the loop ran into Cutoff, and otherwise - a clock was in use - the opponent of the side to move
// (classes selfplay-illegal-move, selfplay-position-wrong, selfplay-winner-wrong).  Model: coq/Selfplay.v over the engine model
// (L1 = status, results, lines; clock numbers on go lines masked: they are wall-clock readings).
type c17SP struct {
	family                      string
	cutoff                      int
	limit, gametime, inc        int64
	p1, p2                      string
	openings                    []*aboard
	p1white                     []bool
	slow                        string // "-" or "<game>.<call>": that call is answered after 1.5 s
}

func c17MaskGo(l string) string {
	w := strings.Split(l, " ")
	if len(w) == 0 || w[0] != "go" {
		return l
	}
	for i := 1; i < len(w); i++ {
		if w[i-1] == "movetime" || w[i-1] == "wtime" || w[i-1] == "btime" {
			w[i] = "#"
		}
	}
	return strings.Join(w, " ")
}

func c17Selfplay(c *ctx) {
	r := c.r
	harness, build := c17Dirs()
	cmd := exec.Command("bash", filepath.Join(harness, "build_c17sp.sh"))
	cmd.Env = os.Environ()
	if out, err := cmd.CombinedOutput(); err != nil {
		fmt.Fprintf(os.Stderr, "build_c17sp.sh failed: %v\n%s\n", err, out)
		os.Exit(3)
	}
	opening := func(size, plies int) *aboard {
		for {
			ps, _ := randomGame(r, tak.Config{Size: size}, plies, -1, false)
			p := ps[len(ps)-1]
			if over, _ := p.GameOver(); !over {
				return absOf(p)
			}
		}
	}
	var ss []*c17SP
	for k := 0; k < 8*c.scale; k++ {
		s := &c17SP{family: "plain", cutoff: 4 + r.Intn(40), p1: "real:1", p2: "real:1", slow: "-"}
		size := 3 + r.Intn(3)
		if r.Intn(3) == 0 && size == 3 {
			s.p1 = "real:2"
		}
		if r.Intn(4) == 0 && size == 3 {
			s.p2 = "real:2"
		}
		for g := 0; g < 1+r.Intn(3); g++ {
			s.openings = append(s.openings, opening(size, r.Intn(2)*r.Intn(6)))
			s.p1white = append(s.p1white, g%2 == 0 || r.Intn(2) == 0)
		}
		if k%3 == 1 {
			s.family = "clocks"
			s.gametime = 3600000000000 * int64(1+r.Intn(3))
			s.inc = []int64{0, 1000000000, 10000000000}[r.Intn(3)]
			if r.Intn(2) == 0 {
				s.limit = 3600000000000
			}
		}
		ss = append(ss, s)
	}
	hx := func(t string) string { return hex.EncodeToString([]byte(t)) }
	// a time loss: the second engine answers its first go after 1.5 s with 1 s on the clock
	ss = append(ss, &c17SP{family: "time-loss", cutoff: 30, gametime: 1000000000, p1: "real:1", p2: "rules:" + hx("go 1 d "+hx("bestmove b2\n")+"\n"),
		openings: []*aboard{c17EmptyBoard(3)}, p1white: []bool{true}, slow: "0.1"})
	// an illegal answer: the scripted engine says a1 where a stone stands
	ss = append(ss, &c17SP{family: "illegal-answer", cutoff: 30, p1: "real:1", p2: "rules:" + hx("\n"),
		openings: []*aboard{c17EmptyBoard(3)}, p1white: []bool{true}, slow: "-"})
	var reqs []string
	games := make([]string, len(ss))
	for i, s := range ss {
		var gs []string
		for g, a := range s.openings {
			col := "w"
			if !s.p1white[g] {
				col = "b"
			}
			gs = append(gs, col+":"+hx(c17FormatTPS(a)))
		}
		games[i] = strings.Join(gs, ",")
		reqs = append(reqs, fmt.Sprintf("W %d %d %d %d %d %s %s %s", i, s.cutoff, s.limit, s.gametime, s.inc, s.p1, s.p2, games[i]))
	}
	dir := filepath.Join(build, "c17sp")
	in, outp := filepath.Join(dir, "req-"+c.tier+".txt"), filepath.Join(dir, "resp-"+c.tier+".txt")
	os.WriteFile(in, []byte(strings.Join(reqs, "\n")+"\n"), 0o644)
	os.Remove(outp)
	run := exec.Command(filepath.Join(build, "selfplay.test"), "-test.run", "^TestVerifSelfplayDriver$", "-test.timeout", "0")
	run.Env = append(os.Environ(), "VERIF_SP_IN="+in, "VERIF_SP_OUT="+outp, "VERIF_TEI_TEST="+filepath.Join(build, "tei.test"))
	if o, err := run.CombinedOutput(); err != nil {
		fmt.Fprintf(os.Stderr, "selfplay.test failed: %v\n%s\n", err, o)
		os.Exit(3)
	}
	data, _ := os.ReadFile(outp)
	resp := strings.Split(strings.TrimSuffix(string(data), "\n"), "\n")
	if len(resp) != len(reqs) {
		fmt.Fprintf(os.Stderr, "selfplay.test: %d responses for %d requests\n", len(resp), len(reqs))
		os.Exit(3)
	}
	// the clocks on the wire: before a side's n-th move of the game its clock is the game time, less what its calls took, plus n-1
	// increments - so in whole ms at most (GameTime + moves so far by that side * Increment), and here (fast engines, hour-long
	// clocks) not more than a minute less (class selfplay-clock-wrong)
	clockOracle := func(s *c17SP, inp string, raw []string) bool {
		if s.gametime == 0 || s.gametime < 600000000000 {
			return true
		}
		g, ply := -1, 0
		for _, l := range raw {
			w := strings.Fields(l)
			switch {
			case len(w) > 0 && w[0] == "teinewgame":
				g++
			case len(w) == 5 && w[0] == "position":
				turn, _ := strconv.Atoi(w[3])
				mvn, _ := strconv.Atoi(w[4])
				ply = 2*(mvn-1) + turn - 1
			case len(w) > 0 && w[0] == "go" && g >= 0 && g < len(s.openings):
				p0 := s.openings[g].ply
				n := [2]int64{} // moves made since the opening by white, black
				for q := p0; q < ply; q++ {
					n[q%2]++
				}
				for i := 1; i+1 < len(w); i += 2 {
					side := -1
					if w[i] == "wtime" {
						side = 0
					} else if w[i] == "btime" {
						side = 1
					}
					if side < 0 {
						continue
					}
					v, _ := strconv.ParseInt(w[i+1], 10, 64)
					hi := (s.gametime + n[side]*s.inc) / 1000000
					if v > hi || v < hi-60000 {
						c.printf("ORACLE-FAIL selfplay-clock-wrong | %s | game %d ply %d: %q | %s = game time %d ms + %d increments of %d ms less the time used: at most %d\n",
							inp, g, ply, l, w[i], s.gametime/1000000, n[side], s.inc/1000000, hi)
						return false
					}
				}
			}
		}
		return true
	}
	decodeLog := func(h string) (lines []string, trans []string, rawLines []string) {
		if h == "-" {
			return
		}
		raw, _ := hex.DecodeString(h)
		for _, l := range strings.Split(strings.TrimRight(string(raw), "\n"), "\n") {
			w := strings.Fields(l)
			if len(w) != 3 {
				continue
			}
			t := ""
			if w[0] != "-" {
				b, _ := hex.DecodeString(w[0])
				t = string(b)
			}
			lines = append(lines, hx(c17MaskGo(t)))
			rawLines = append(rawLines, t)
			trans = append(trans, w[1]+":"+w[2])
		}
		return
	}
	for i, s := range ss {
		f := strings.Split(resp[i], " ")
		inp := fmt.Sprintf("selfplay;%s;cutoff %d limit %d gametime %d inc %d;%s;%s;%s", s.family, s.cutoff, s.limit, s.gametime, s.inc, s.p1, s.p2, games[i])
		if len(f) != 6 || f[0] != "W" {
			c.printf("ORACLE-FAIL selfplay-driver | %s | %s | a W response\n", inp, resp[i])
			continue
		}
		c.stat("selfplay_sessions", 1)
		c.stat("selfplay_family_"+s.family, 1)
		status := f[2]
		if strings.HasPrefix(status, "panic:") {
			msg, _ := hex.DecodeString(status[6:])
			if strings.HasPrefix(string(msg), "illegal move") {
				status = "panic:illegal"
			} else {
				status = "panic:other"
			}
			if s.family != "illegal-answer" {
				c.printf("ORACLE-FAIL selfplay-panic | %s | the worker panicked: %s | every game between two engines is played to a result\n", inp, msg)
				continue
			}
		}
		bad := false
		if f[3] != "-" {
			for g, gr := range strings.Split(f[3], "/") {
				part := strings.Split(gr, ":")
				if len(part) != 3 || g >= len(s.openings) {
					bad = true
					break
				}
				c.stat("selfplay_games", 1)
				a := s.openings[g].clone()
				nm := 0
				if part[0] != "-" {
					for _, mt := range strings.Split(part[0], "+") {
						var x, y, t, sl int
						fmt.Sscanf(mt, "%d.%d.%d.%d", &x, &y, &t, &sl)
						nx := a.rulesMove(tak.Move{X: int8(x), Y: int8(y), Type: tak.MoveType(t), Slides: tak.Slides(sl)})
						if nx == nil {
							c.printf("ORACLE-FAIL selfplay-illegal-move | %s | game %d: move %d (%s) is not legal in %s | every move of the record is legal where it was played\n", inp, g, nm+1, mt, c17FormatTPS(a))
							bad = true
							break
						}
						a = nx
						nm++
					}
				}
				if bad {
					break
				}
				c.stat("selfplay_moves", int64(nm))
				tps, _ := hex.DecodeString(part[1])
				if string(tps) != c17FormatTPS(a) {
					c.printf("ORACLE-FAIL selfplay-position-wrong | %s | game %d: Position %q | the opening with the %d moves applied: %q\n", inp, g, tps, nm, c17FormatTPS(a))
					bad = true
					break
				}
				over, wcol, _ := a.outcome()
				want := "none"
				kind := "cutoff"
				switch {
				case over:
					kind = "board"
					if wcol == tak.White {
						want = "white"
					} else if wcol == tak.Black {
						want = "black"
					}
				case nm < s.cutoff:
					kind = "time"
					want = "black"
					if a.toMove() == tak.Black {
						want = "white"
					}
					if s.gametime == 0 {
						want = "a game that is neither over nor at the cutoff needs a clock"
					}
				}
				c.stat("selfplay_end_"+kind, 1)
				if part[2] != want {
					c.printf("ORACLE-FAIL selfplay-winner-wrong | %s | game %d ended (%s) in %s after %d moves with Winner %s | %s\n", inp, g, kind, c17FormatTPS(a), nm, part[2], want)
					bad = true
					break
				}
			}
		}
		if bad {
			continue
		}
		l1, _, raw1 := decodeLog(f[4])
		l2, t2, raw2 := decodeLog(f[5])
		if !clockOracle(s, inp, raw1) || !clockOracle(s, inp, raw2) {
			continue
		}
		tr2 := "-"
		if strings.HasPrefix(s.p2, "rules:") && len(t2) > 0 {
			tr2 = strings.Join(t2, ",")
		}
		p2 := s.p2
		if strings.HasPrefix(p2, "rules:") {
			p2 = "rules:"
		}
		c.printf("CASE W %d %d %d %d %s %s %s %s %s | %s %s %s %s\n", s.cutoff, s.limit, s.gametime, s.inc, s.p1, p2, games[i], s.slow, tr2,
			status, f[3], strings.Join(l1, ","), strings.Join(l2, ","))
		if i < 2 {
			c.printf("SAMPLE selfplay %s: cutoff %d, %s vs %s, %d game(s) -> %s %s\n", s.family, s.cutoff, s.p1, p2, len(s.openings), status, f[3])
		}
	}
}

func c17Fixed() []*c17Script {
	mk := func(mode string, depth int, text string) *c17Script {
		return &c17Script{mode: mode, depth: depth, evk: 2, tbl: 64, family: "fixed", text: []byte(text), rec: mode == "L"}
	}
	full3 := "position startpos moves a1 b1 c1 a2 b2 c2 a3 b3 c3\n" // the board is full: game over on flats
	road3 := "position startpos moves a3 a1 b1 b3 c1\n"             // white owns a1 b1 c1: a road
	var out []*c17Script
	for _, mode := range []string{"L", "R"} {
		out = append(out,
			mk(mode, 1, "position startpos\ngo\n"),                                               // position before teinewgame
			mk(mode, 1, "go\n"),                                                                  // go before anything
			mk(mode, 1, "teinewgame 3\n"+road3+"go\nisready\n"),                                   // go on a finished game
			mk(mode, 1, "teinewgame 3\n"+full3+"go\n"),
			mk(mode, 2, "teinewgame 3\nposition startpos moves a1 c3\ngo\nteinewgame 4\ngo\nposition startpos\ngo\n"),
			mk(mode, 1, "teinewgame 5\nposition startpos moves a1 e5 c3\ngo\nposition startpos moves a1\ngo\ngo\n"),
			mk(mode, 1, "teinewgame 4\nposition tps x4/x4/x4/x4 1 1\ngo\nposition tps x5/x5/x5/x5/x5 1 1\ngo\n"),
			mk(mode, 1, "teinewgame\nposition tps x5/x5/x,,x3/x5/x5 1 1\ngo\n"),
			mk(mode, 1, "teinewgame 9\nposition startpos\ngo\n"),
			mk(mode, 1, "teinewgame 6\nposition startpos moves a1 f6 Sc3 Cd4 c3+ \ngo wtime 600000 btime 600000 winc 1000 binc 1000\nquit\ngo\n"),
			mk(mode, 1, "teinewgame 5\nposition tps x5/x5/x2,1,x2/x5/x,2,x3 1 2 moves a1 e5\ngo\nteinewgame 5\nposition startpos moves a1 e5\ngo\n"),
			mk(mode, 1, "teinewgame 5\nposition startpos moves a1 e5\ngo\nposition tps x5/x5/x2,1,x2/x5/x,2,x3 1 2 moves a1 e5 a2\ngo\nposition tps x5/x,1,x3/x5/x5/x3,2,x 1 2 moves a1 e5 a2\ngo\n"),
		)
	}
	// one very long command line (>= 4096, >= 8192 bytes, and the two boundaries of a 4096-byte buffer), then go
	for _, mode := range []string{"L", "R"} {
		for _, v := range [][3]int{{3, 1100, 0}, {5, 2300, 0}, {4, 1000, 4095}, {4, 1000, 4096}, {4, 1000, 4097}} {
			line := c17LongGame(v[0], v[1])
			for len(line)+1 < v[2] { // padded with spaces to an exact length, newline included
				line += " "
			}
			sc := mk(mode, 1, fmt.Sprintf("teinewgame %d\n%s\ngo\nisready\n", v[0], line))
			sc.family = "long-line"
			out = append(out, sc)
		}
	}
	return out
}

func c17Replay(c *ctx, bin string) {
	if len(c.args) < 1 {
		fmt.Fprintln(os.Stderr, "replay: need a replay file")
		os.Exit(2)
	}
	data, err := os.ReadFile(c.args[0])
	if err != nil {
		panic(err)
	}
	var rp struct {
		Input string `json:"input"`
	}
	if err := json.Unmarshal(data, &rp); err != nil {
		panic(err)
	}
	f := strings.Fields(rp.Input)
	switch {
	case (len(f) == 6 || len(f) == 5) && f[0] == "S":
		if len(f) == 5 {
			f = append(f, "") // the empty script
		}
		s := &c17Script{mode: f[1], family: "replay", rec: f[1] == "L"}
		s.depth, _ = strconv.Atoi(f[2])
		s.evk, _ = strconv.Atoi(f[3])
		s.tbl, _ = strconv.Atoi(f[4])
		s.text, _ = hex.DecodeString(f[5])
		c17MarkTiny(s)
		fmt.Fprintf(c.w, "replaying script %q\n", string(s.text))
		c17RunScripts(c, bin, "replay", []*c17Script{s})
	case len(f) == 4 && f[0] == "B":
		resp := c17Drive(bin, "replay", []string{rp.Input})
		var t [3]int64
		for i := range t {
			t[i], _ = strconv.ParseInt(f[i+1], 10, 64)
		}
		got, _ := strconv.ParseInt(strings.TrimPrefix(resp[0], "B "), 10, 64)
		fmt.Fprintf(c.w, "calcBudget(%d, %d, %d) = %d\n", t[0], t[1], t[2], got)
		if msg := c17BudgetOracle(t[0], t[1], t[2], got); msg != "" {
			c.printf("ORACLE-FAIL budget-exceeds-clock | %s | calcBudget = %d: %s | gametime > 0 -> budget < gametime; movetime > 0 -> budget <= movetime\n", rp.Input, got, msg)
		}
	case len(f) == 2 && f[0] == "T":
		text, _ := hex.DecodeString(f[1])
		resp := c17Drive(bin, "replay", []string{fmt.Sprintf("T 0 1500 %s", f[1])})
		fmt.Fprintf(c.w, "probe %q -> %s (ns until the searcher's context expired)\n", string(text), resp[0])
		fmt.Fprintln(c.w, "ORACLE-FAIL clock-wiring | "+rp.Input+" | see above | compare with the budget of the side to move")
	default:
		fmt.Fprintln(os.Stderr, "replay: unrecognised input", rp.Input)
		os.Exit(2)
	}
}

var _ = bufio.NewReader
