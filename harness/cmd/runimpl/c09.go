package main

// verif:tags verif_c09

// C09: positions are values — moves and clones never alias or alter their source.
//
// One CASE = one operation sequence over a set of handles (object ids, numbered in order of allocation):
//   I <enc position>        a position built by FromSquares (alloc + fill + analyze)
//   N size bwt stones caps  tak.New
//   A size                  tak.Alloc: an object that is only ever a buffer
//   M h move                h.Move(move)                      (consumes an id even when it fails)
//   P h move buf            h.MovePreallocated(move, buf)     (buf: any other held object, live or dead)
//   C h                     h.Clone()
// CASE legal=<0|1> ; op ; op ... | per step: result and the observables of EVERY live handle | per step: slice headers of
// every held object (Height, Stacks, WhiteGroups, BlackGroups; each named by the object whose embedded array it points
// into: the alias structure) and the raw value of every live handle.  An observable that did not change since it was last printed
// for the same handle is printed as "=" (both sides do that on their own text).
//
// Direct oracle (no model involved): every live handle has a deep snapshot taken when it was created
// (squares through At, reserves, ply, GameOver, both group slices, Hash, legal move set); after every
// operation every live handle is observed again and must equal its snapshot.  At creation the derived data
// must agree with a from-scratch reading of the squares (depth-first groups and rules outcome written here,
// Hash of a FromSquares rebuild), a clone must equal its source, and no storage that any held object can
// write may overlap storage a live handle reads (checked on the slice headers' addresses).

import (
	"bufio"
	"bytes"
	"crypto/md5"
	"encoding/hex"
	"encoding/json"
	"fmt"
	"math/rand"
	"os"
	"runtime/pprof"
	"sort"
	"strconv"
	"strings"
	"sync"
	"unsafe"

	"github.com/nelhage/taktician/tak"
)

func init() { register("C09", runC09) }

type c09op struct {
	kind   byte
	h, buf int
	m      tak.Move
	cfg    tak.Config
	board  [][]tak.Square
	ply    int
	size   int
}

type c09obj struct {
	p        *tak.Position // nil: the garbage object of a failed Move (nobody holds it)
	live     bool
	core     string // snapshot at creation
	legal    string
	last1    string // last printed L1 / L2 text of this handle
	last2    string
	parent   int
	bornStep int
	moves    []tak.Move // legal moves at creation (for the generator)
	asize    int        // board size the object was allocated with (selects its positionN struct type)
}

type c09fresh struct {
	base uintptr
	n    int
	keep []uint64 // keeps the array reachable, so that its address is never reused
}

type c09run struct {
	objs      []*c09obj
	ops       []string
	l1, l2    []string
	withLegal bool
	full      bool // print observables in full (else their md5), flag fmt= of the input
	fresh     []c09fresh
	fails     [][3]string // class, what the implementation did, what the property demands
	seen      map[string]bool
	nlive     int
	scratch   *tak.Position
	mbuf      []tak.Move
	overflow  bool
}

func newC09run(withLegal, full bool) *c09run {
	return &c09run{withLegal: withLegal, full: full, seen: map[string]bool{}}
}

func c09md5(t string) string {
	h := md5.Sum([]byte(t))
	return "#" + hex.EncodeToString(h[:8])
}

func (rn *c09run) fail(class, did, want string) {
	if rn.seen[class] {
		return
	}
	rn.seen[class] = true
	rn.fails = append(rn.fails, [3]string{class, did, want})
}

// ---------- observation ----------

func u64s(gs []uint64) string {
	if len(gs) == 0 {
		return "-"
	}
	s := make([]string, len(gs))
	for i, g := range gs {
		s[i] = strconv.FormatUint(g, 10)
	}
	return strings.Join(s, ",")
}

// squares/reserves/ply through At, GameOver, the group slices through Analysis(), Hash
func c09Core(p *tak.Position) (s string) {
	if panicked, msg := safely(func() {
		over, win := p.GameOver()
		a := p.Analysis()
		s = fmt.Sprintf("%s/%d%s/%s/%s/%d", encAbs(p), b2i(over), colorStr(win), u64s(a.WhiteGroups), u64s(a.BlackGroups), p.Hash())
	}); panicked {
		return "PANIC " + strings.ReplaceAll(msg, "|", "!")
	}
	return s
}

// the legal move set of p: the generated moves that the engine accepts.  The trial moves go into a scratch
// object that is never a handle (so the reads themselves exercise MovePreallocated with a reused buffer).
func (rn *c09run) legal(p *tak.Position) (s string, list []tak.Move) {
	if panicked, _ := safely(func() {
		if rn.scratch == nil || rn.scratch.Size() != p.Size() {
			rn.scratch = tak.Alloc(p.Size())
		}
		var ms []string
		rn.mbuf = p.AllMoves(rn.mbuf[:0])
		for _, m := range rn.mbuf {
			if _, e := p.MovePreallocated(m, rn.scratch); e == nil {
				ms = append(ms, encMove(m))
				list = append(list, m)
			}
		}
		s = c09Digest(ms)
	}); panicked {
		return "PANIC", nil
	}
	return s, list
}

func c09Digest(ms []string) string {
	sort.Strings(ms)
	out := ms[:0]
	for i, m := range ms {
		if i == 0 || m != ms[i-1] {
			out = append(out, m)
		}
	}
	h := md5.Sum([]byte(strings.Join(out, ",")))
	return fmt.Sprintf("%d.%s", len(out), hex.EncodeToString(h[:8]))
}

// from-scratch groups: connectivity classes (>= 2 squares) of the road squares of one colour, by depth-first
// search over the squares read through At; order = ascending lowest square index (the order a scan from
// square 0 meets them)
func c09Groups(p *tak.Position, col tak.Color) []uint64 {
	n := p.Size()
	road := make([]bool, n*n)
	for y := 0; y < n; y++ {
		for x := 0; x < n; x++ {
			sq := p.At(x, y)
			road[x+y*n] = len(sq) > 0 && sq[0].Color() == col && sq[0].Kind() != tak.Standing
		}
	}
	seen := make([]bool, n*n)
	var out []uint64
	for i := 0; i < n*n; i++ {
		if !road[i] || seen[i] {
			continue
		}
		var g uint64
		cnt := 0
		stack := []int{i}
		seen[i] = true
		for len(stack) > 0 {
			c := stack[len(stack)-1]
			stack = stack[:len(stack)-1]
			g |= 1 << uint(c)
			cnt++
			x, y := c%n, c/n
			for _, d := range [][2]int{{1, 0}, {-1, 0}, {0, 1}, {0, -1}} {
				xx, yy := x+d[0], y+d[1]
				if xx >= 0 && xx < n && yy >= 0 && yy < n && road[xx+yy*n] && !seen[xx+yy*n] {
					seen[xx+yy*n] = true
					stack = append(stack, xx+yy*n)
				}
			}
		}
		if cnt >= 2 {
			out = append(out, g)
		}
	}
	return out
}

// what the derived data of p must be, read from its squares alone
func c09Scratch(p *tak.Position) (s string) {
	if panicked, msg := safely(func() {
		over, win, _ := absOf(p).outcome()
		q, err := tak.FromSquares(p.Config(), boardOf(p), p.MoveNumber())
		if err != nil {
			s = "FromSquares: " + err.Error()
			return
		}
		s = fmt.Sprintf("%s/%d%s/%s/%s/%d", encAbs(p), b2i(over), colorStr(win), u64s(c09Groups(p, tak.White)), u64s(c09Groups(p, tak.Black)), q.Hash())
	}); panicked {
		return "PANIC " + msg
	}
	return s
}

// ---------- storage identity (L2) and the address-level alias oracle ----------

// data pointer of a slice header (unsafe.SliceData needs go1.20; the harness module is go1.18)
func c09ptr(s []uint64) uintptr { return (*[3]uintptr)(unsafe.Pointer(&s))[0] }
func c09ptrB(s []uint8) uintptr { return (*[3]uintptr)(unsafe.Pointer(&s))[0] }

func (rn *c09run) hdr(s []uint64) string {
	if s == nil {
		return "n"
	}
	ptr := c09ptr(s)
	name, off := "", 0
	for k, o := range rn.objs {
		if o.p == nil {
			continue
		}
		og := tak.VerifOwnGroups(o.p)
		base := c09ptr(og)
		if ptr >= base && ptr < base+uintptr(8*len(og)) {
			name, off = "o"+strconv.Itoa(k), int(ptr-base)/8
			break
		}
	}
	if name == "" {
		for i, f := range rn.fresh {
			if ptr >= f.base && ptr < f.base+uintptr(8*f.n) {
				name, off = "f"+strconv.Itoa(i), int(ptr-f.base)/8
				break
			}
		}
	}
	if name == "" {
		full := s[:cap(s)]
		rn.fresh = append(rn.fresh, c09fresh{base: ptr, n: cap(s), keep: full})
		name, off = "f"+strconv.Itoa(len(rn.fresh)-1), 0
		rn.overflow = true
	}
	if len(s) == 0 {
		return name + ".e"
	}
	return fmt.Sprintf("%s.%d.%d", name, off, len(s))
}

// the Height / Stacks header of a held object, named by the object whose embedded array it points into:
// H<k>.off.len / S<k>.off.len (".e" for an empty slice, "n" for nil, "?" if it points into no held object's array)
func (rn *c09run) hdrHS(ptr uintptr, isNil bool, n int, stacks bool) string {
	if isNil {
		return "n"
	}
	name, off := "?", 0
	for k, o := range rn.objs {
		if o.p == nil {
			continue
		}
		oh, ost, _ := tak.VerifOwnArrays(o.p, o.asize)
		if stacks {
			base := c09ptr(ost)
			if ptr >= base && ptr < base+uintptr(8*len(ost)) {
				name, off = "S"+strconv.Itoa(k), int(ptr-base)/8
				break
			}
		} else {
			base := c09ptrB(oh)
			if ptr >= base && ptr < base+uintptr(len(oh)) {
				name, off = "H"+strconv.Itoa(k), int(ptr-base)
				break
			}
		}
	}
	if n == 0 {
		return name + ".e"
	}
	return fmt.Sprintf("%s.%d.%d", name, off, n)
}

type c09range struct{ lo, hi uintptr }

func rng8(p uintptr, n int, elem int) c09range {
	return c09range{p, p + uintptr(n*elem)}
}
func (a c09range) overlaps(b c09range) bool {
	return a.lo < a.hi && b.lo < b.hi && a.lo < b.hi && b.lo < a.hi
}

// storage the object may be written through (its arrays up to their capacity; analyze writes behind WhiteGroups[:0])
func c09Writes(p *tak.Position) []c09range {
	a := p.Analysis()
	og := tak.VerifOwnGroups(p)
	return []c09range{
		rng8(c09ptrB(p.Height), cap(p.Height), 1),
		rng8(c09ptr(p.Stacks), cap(p.Stacks), 8),
		rng8(c09ptr(a.WhiteGroups), cap(a.WhiteGroups), 8),
		rng8(c09ptr(og), len(og), 8),
	}
}

// storage a reader of the handle looks at
func c09Reads(p *tak.Position) []c09range {
	a := p.Analysis()
	return []c09range{
		rng8(c09ptrB(p.Height), len(p.Height), 1),
		rng8(c09ptr(p.Stacks), len(p.Stacks), 8),
		rng8(c09ptr(a.WhiteGroups), len(a.WhiteGroups), 8),
		rng8(c09ptr(a.BlackGroups), len(a.BlackGroups), 8),
	}
}

var c09rangeNames = []string{"Height", "Stacks", "WhiteGroups", "Groups array"}
var c09readNames = []string{"Height", "Stacks", "WhiteGroups", "BlackGroups"}

func (rn *c09run) aliasOracle() {
	for a, oa := range rn.objs {
		if oa.p == nil {
			continue
		}
		ws := c09Writes(oa.p)
		for b, ob := range rn.objs {
			if a == b || ob.p == nil || !ob.live {
				continue
			}
			for j, rr := range c09Reads(ob.p) {
				for i, w := range ws {
					if w.overlaps(rr) {
						rn.fail("alias-detected", fmt.Sprintf("after step %d the %s of live handle %d lies in storage that object %d writes through its %s",
							len(rn.ops)-1, c09readNames[j], b, a, c09rangeNames[i]), "no storage shared between a live handle and any other object")
					}
				}
			}
		}
	}
}

// ---------- running operations ----------

func (rn *c09run) add(p *tak.Position, live bool, parent int) int {
	o := &c09obj{p: p, live: live, parent: parent, bornStep: len(rn.ops) - 1}
	if p != nil {
		o.asize = p.Size()
	}
	rn.objs = append(rn.objs, o)
	return len(rn.objs) - 1
}

// apply runs one operation on the implementation; returns the id of the handle it produced (-1: error, -2: panic)
func (rn *c09run) apply(op c09op) int {
	res := -1
	created := -1
	switch op.kind {
	case 'I':
		p, err := tak.FromSquares(op.cfg, op.board, op.ply)
		if err != nil {
			panic(err)
		}
		rn.ops = append(rn.ops, "I "+enc(p))
		res = rn.add(p, true, -1)
		created = res
	case 'N':
		p := tak.New(op.cfg)
		ws, wc, _, _ := tak.VerifReserves(p)
		rn.ops = append(rn.ops, fmt.Sprintf("N %d %d %d %d", p.Size(), b2i(op.cfg.BlackWinsTies), ws, wc))
		res = rn.add(p, true, -1)
		created = res
	case 'A':
		p := tak.Alloc(op.size)
		rn.ops = append(rn.ops, fmt.Sprintf("A %d", op.size))
		res = rn.add(p, false, -1)
	case 'M':
		rn.ops = append(rn.ops, fmt.Sprintf("M %d %s", op.h, encMove(op.m)))
		var q *tak.Position
		var err error
		panicked, _ := safely(func() { q, err = rn.objs[op.h].p.Move(op.m) })
		switch {
		case panicked:
			rn.add(nil, false, op.h)
			res = -2
		case err != nil:
			rn.add(nil, false, op.h)
		default:
			res = rn.add(q, true, op.h)
			created = res
		}
	case 'P':
		rn.ops = append(rn.ops, fmt.Sprintf("P %d %s %d", op.h, encMove(op.m), op.buf))
		var q *tak.Position
		var err error
		b := rn.objs[op.buf]
		panicked, _ := safely(func() { q, err = rn.objs[op.h].p.MovePreallocated(op.m, b.p) })
		b.live = false
		b.parent = op.h
		switch {
		case panicked:
			res = -2
		case err != nil:
		default:
			if q != b.p {
				rn.fail("alias-detected", "MovePreallocated returned an object other than the supplied buffer", "result in the caller-supplied storage")
				b.p = q
			}
			b.live = true
			b.bornStep = len(rn.ops) - 1
			res = op.buf
			created = res
		}
	case 'C':
		rn.ops = append(rn.ops, fmt.Sprintf("C %d", op.h))
		var q *tak.Position
		panicked, _ := safely(func() { q = rn.objs[op.h].p.Clone() })
		if panicked {
			rn.add(nil, false, op.h)
			res = -2
		} else {
			res = rn.add(q, true, op.h)
			created = res
		}
	}
	rn.observeAll(op, res, created)
	return res
}

func (rn *c09run) observeAll(op c09op, res, created int) {
	step := len(rn.ops) - 1
	var s1, s2 []string
	switch {
	case res >= 0:
		s1 = append(s1, "r=+"+strconv.Itoa(res))
	case res == -2:
		s1 = append(s1, "r=!")
	default:
		s1 = append(s1, "r=-")
	}
	rn.nlive = 0
	for k, o := range rn.objs {
		if o.p == nil {
			continue
		}
		a := o.p.Analysis()
		s2 = append(s2, fmt.Sprintf("%d:h=%s,s=%s,w=%s,b=%s", k,
			rn.hdrHS(c09ptrB(o.p.Height), o.p.Height == nil, len(o.p.Height), false),
			rn.hdrHS(c09ptr(o.p.Stacks), o.p.Stacks == nil, len(o.p.Stacks), true),
			rn.hdr(a.WhiteGroups), rn.hdr(a.BlackGroups)))
		if !o.live {
			continue
		}
		rn.nlive++
		core := c09Core(o.p)
		legal, list := rn.legal(o.p)
		if k == created {
			o.core, o.legal, o.moves = core, legal, list
			o.last1, o.last2 = "", ""
			// derived data must be what the squares say
			if want := c09Scratch(o.p); want != core {
				cls := "derived-stale"
				if op.kind == 'C' {
					cls = "clone-differs"
				}
				rn.fail(cls, fmt.Sprintf("handle %d created at step %d shows %s", k, step, core), "from its squares: "+want)
			}
			if op.kind == 'C' {
				src := rn.objs[op.h]
				sc := c09Core(src.p)
				sl, _ := rn.legal(src.p)
				if sc != core || sl != legal {
					rn.fail("clone-differs", fmt.Sprintf("clone %d shows %s legal %s", k, core, legal), fmt.Sprintf("its source %d shows %s legal %s", op.h, sc, sl))
				}
			}
		} else if core != o.core || legal != o.legal {
			cls := "alias-detected"
			if (op.kind == 'M' || op.kind == 'P' || op.kind == 'C') && k == op.h {
				cls = "source-mutated"
			}
			rn.fail(cls, fmt.Sprintf("after step %d (%s) handle %d shows %s legal %s", step, rn.ops[step], k, core, legal),
				fmt.Sprintf("unchanged since its creation at step %d: %s legal %s", o.bornStep, o.core, o.legal))
		}
		t1 := core
		if rn.withLegal {
			t1 += "/" + legal
		}
		t2 := enc(o.p)
		if !rn.full {
			t1, t2 = c09md5(t1), c09md5(t2)
		}
		if t1 == o.last1 {
			s1 = append(s1, fmt.Sprintf("%d==", k))
		} else {
			s1 = append(s1, fmt.Sprintf("%d=%s", k, t1))
			o.last1 = t1
		}
		if t2 == o.last2 {
			s2 = append(s2, fmt.Sprintf("%d#=", k))
		} else {
			s2 = append(s2, fmt.Sprintf("%d#%s", k, t2))
			o.last2 = t2
		}
	}
	rn.aliasOracle()
	rn.l1 = append(rn.l1, strings.Join(s1, " "))
	rn.l2 = append(rn.l2, strings.Join(s2, " "))
}

// a panic of the implementation outside the guarded calls (while a start position is generated, in FromSquares, in a
// read) becomes an oracle failure carrying the operations run so far
func (rn *c09run) recoverAndEmit(c *ctx, kind string) {
	if e := recover(); e != nil {
		rn.seen = map[string]bool{}
		rn.fail("panic", fmt.Sprintf("panic after %d operations: %v", len(rn.ops), e), "no panic")
		rn.emit(c, kind)
	}
}

func (rn *c09run) input() string {
	return fmt.Sprintf("legal=%d fmt=%s ; %s", b2i(rn.withLegal), map[bool]string{true: "full", false: "md5"}[rn.full], strings.Join(rn.ops, " ; "))
}

func (rn *c09run) emit(c *ctx, kind string) {
	c.stat("sequences", 1)
	c.stat("sequences_"+kind, 1)
	c.stat("operations", int64(len(rn.ops)))
	if rn.overflow {
		c.stat("sequences_with_group_array_overflow", 1)
	}
	c.printf("CASE %s | %s | %s\n", rn.input(), strings.Join(rn.l1, " ; "), strings.Join(rn.l2, " ; "))
	for _, f := range rn.fails {
		c.printf("ORACLE-FAIL %s | %s | %s | %s\n", f[0], rn.input(), strings.ReplaceAll(f[1], "|", "!"), strings.ReplaceAll(f[2], "|", "!"))
	}
}

// ---------- generators ----------

func c09BadMove(r *rand.Rand, p *tak.Position) tak.Move {
	n := p.Size()
	m := tak.Move{X: int8(r.Intn(n)), Y: int8(r.Intn(n))}
	switch r.Intn(7) {
	case 0: // off the board
		m.X = int8(n + r.Intn(3))
		m.Type = tak.PlaceFlat
	case 1:
		m.Y = -1
		m.Type = tak.SlideUp
		m.Slides = tak.MkSlides(1)
	case 2: // bad type code
		m.Type = tak.MoveType(9 + r.Intn(200))
	case 3: // slide carrying more than the stack / the size
		m.Type = tak.MoveType(5 + r.Intn(4))
		m.Slides = tak.Slides(uint32(n+1) | 1<<4)
	case 4: // slide with a zero drop
		m.Type = tak.MoveType(5 + r.Intn(4))
		m.Slides = tak.Slides(0x101)
	case 5: // placement on an occupied square (if any), or a wall in the opening
		m.Type = tak.PlaceStanding
		for y := 0; y < n; y++ {
			for x := 0; x < n; x++ {
				if len(p.At(x, y)) > 0 && r.Intn(3) == 0 {
					m.X, m.Y = int8(x), int8(y)
				}
			}
		}
		if len(p.At(int(m.X), int(m.Y))) == 0 && p.MoveNumber() >= 2 {
			m.Type = tak.SlideLeft // slide from an empty square
			m.Slides = tak.MkSlides(1)
		}
	default: // a slide that fails late (after the origin was rewritten in the buffer): long run off the edge or into a capstone/wall
		m.Type = tak.MoveType(5 + r.Intn(4))
		k := 1 + r.Intn(n)
		ds := make([]int, k)
		for i := range ds {
			ds[i] = 1
		}
		m.Slides = tak.MkSlides(ds...)
	}
	return m
}

// a board tiled with two-square groups of alternating colours: more than 2*size groups for size >= 5, so that
// FloodGroups' append outgrows the object's Groups array
func c09DominoBoard(r *rand.Rand, size int) (tak.Config, [][]tak.Square, int) {
	board := make([][]tak.Square, size)
	for y := range board {
		board[y] = make([]tak.Square, size)
		for x := range board[y] {
			d := x / 2
			col := tak.White
			if (d+y)%2 == 1 {
				col = tak.Black
			}
			if r.Intn(14) == 0 {
				continue
			}
			kind := tak.Flat
			if r.Intn(25) == 0 {
				kind = tak.Standing
			}
			board[y][x] = tak.Square{tak.MakePiece(col, kind)}
		}
	}
	cfg := tak.Config{Size: size, BlackWinsTies: r.Intn(4) == 0}
	fitReserves(r, &cfg, board)
	return cfg, board, 2 + r.Intn(40)
}

// a board with a finished road of one colour (a monotone walk from one edge to the opposite one, sometimes for
// both colours), other squares filled at random: GameOver depends on the group slices here
func c09RoadBoard(r *rand.Rand, size int) (tak.Config, [][]tak.Square, int) {
	board := make([][]tak.Square, size)
	for y := range board {
		board[y] = make([]tak.Square, size)
	}
	col := tak.White
	if r.Intn(2) == 0 {
		col = tak.Black
	}
	other := col.Flip()
	vertical := r.Intn(2) == 0
	onRoad := map[[2]int]bool{}
	a := r.Intn(size)
	for b := 0; b < size; b++ {
		steps := r.Intn(3) - 1
		for {
			x, y := a, b
			if !vertical {
				x, y = b, a
			}
			onRoad[[2]int{x, y}] = true
			if steps == 0 || a+steps < 0 || a+steps >= size {
				break
			}
			a += steps
			steps = 0
		}
	}
	for y := 0; y < size; y++ {
		for x := 0; x < size; x++ {
			if onRoad[[2]int{x, y}] {
				sq := tak.Square{tak.MakePiece(col, tak.Flat)}
				for j := r.Intn(3); j > 0; j-- {
					sq = append(sq, tak.MakePiece([]tak.Color{tak.White, tak.Black}[r.Intn(2)], tak.Flat))
				}
				board[y][x] = sq
				continue
			}
			switch r.Intn(5) {
			case 0:
				board[y][x] = tak.Square{tak.MakePiece(other, tak.Flat)}
			case 1:
				board[y][x] = tak.Square{tak.MakePiece(other, tak.Standing)}
			case 2:
				board[y][x] = tak.Square{tak.MakePiece(col, tak.Flat), tak.MakePiece(other, tak.Flat)}
			}
		}
	}
	cfg := tak.Config{Size: size, BlackWinsTies: r.Intn(4) == 0}
	fitReserves(r, &cfg, board)
	return cfg, board, 2 + r.Intn(40)
}

func c09Start(r *rand.Rand, size int) c09op {
	switch k := r.Intn(20); {
	case k < 8: // a position from a playout (often past the end of the game, so that roads exist)
		cfg := randCfg(r, size)
		ps, _ := randomGame(r, cfg, 4+r.Intn(12*size), []int{-1, 4, 4, 3, 1}[r.Intn(5)], r.Intn(3) == 0)
		p := ps[len(ps)-1-r.Intn(minInt(3, len(ps)))]
		return c09op{kind: 'I', cfg: p.Config(), board: boardOf(p), ply: p.MoveNumber()}
	case k < 12:
		cfg, board, ply := c09RoadBoard(r, size)
		return c09op{kind: 'I', cfg: cfg, board: board, ply: ply}
	case k < 15:
		p, board, ply := constructedBoard(r, size, []int{2, 4, 9}[r.Intn(3)], 0.2+0.7*r.Float64())
		return c09op{kind: 'I', cfg: p.Config(), board: board, ply: ply}
	case k < 18:
		cfg, board, ply := c09DominoBoard(r, size)
		return c09op{kind: 'I', cfg: cfg, board: board, ply: ply}
	}
	return c09op{kind: 'N', cfg: randCfg(r, size)}
}

func minInt(a, b int) int {
	if a < b {
		return a
	}
	return b
}

func (rn *c09run) liveIDs() []int {
	var out []int
	for k, o := range rn.objs {
		if o.live {
			out = append(out, k)
		}
	}
	return out
}

// pickBuf: any held object other than h; the interesting patterns are chosen on purpose
func (rn *c09run) pickBuf(r *rand.Rand, h int) int {
	var dead, live, derivedFrom []int
	for k, o := range rn.objs {
		if o.p == nil || k == h {
			continue
		}
		if o.live {
			live = append(live, k)
		} else {
			dead = append(dead, k)
		}
		// k is the object some OTHER live handle was derived from
		for j, oj := range rn.objs {
			if j != k && j != h && oj.live && oj.parent == k {
				derivedFrom = append(derivedFrom, k)
				break
			}
		}
	}
	par := rn.objs[h].parent
	switch x := r.Intn(10); {
	case x < 2 && par >= 0 && par != h && rn.objs[par].p != nil:
		return par // h's own parent
	case x < 5 && len(derivedFrom) > 0:
		return derivedFrom[r.Intn(len(derivedFrom))]
	case x < 8 && len(dead) > 0:
		return dead[r.Intn(len(dead))]
	case len(live) > 0 && (x < 9 || len(dead) == 0):
		return live[r.Intn(len(live))]
	case len(dead) > 0:
		return dead[r.Intn(len(dead))]
	}
	return -1
}

func c09RandomSeq(c *ctx, withLegal, full bool) {
	r := c.r
	size := 3 + r.Intn(6)
	rn := newC09run(withLegal, full)
	defer rn.recoverAndEmit(c, "random")
	rn.apply(c09Start(r, size))
	if r.Intn(3) == 0 {
		rn.apply(c09Start(r, size))
	}
	for k := r.Intn(3); k > 0; k-- {
		rn.apply(c09op{kind: 'A', size: size})
	}
	nops := 4 + r.Intn(27)
	for len(rn.ops) < nops {
		live := rn.liveIDs()
		if len(live) == 0 {
			rn.apply(c09Start(r, size))
			continue
		}
		h := live[r.Intn(len(live))]
		if r.Intn(3) == 0 { // prefer the newest
			h = live[len(live)-1]
		}
		p := rn.objs[h].p
		var m tak.Move
		if r.Intn(4) == 0 {
			m = c09BadMove(r, p)
		} else if r.Intn(40) == 0 {
			m = tak.Move{Type: tak.Pass}
		} else if legal := rn.objs[h].moves; len(legal) > 0 {
			m = pickMove(r, p, legal, r.Intn(6))
		} else {
			m = c09BadMove(r, p)
		}
		x := r.Intn(100)
		if len(live) >= 7 && x < 60 {
			x = 60 // keep the number of live handles bounded: recycle
		}
		switch {
		case x < 28:
			rn.apply(c09op{kind: 'M', h: h, m: m})
		case x < 45:
			rn.apply(c09op{kind: 'C', h: h})
		case x < 50:
			rn.apply(c09op{kind: 'A', size: size})
		default:
			b := rn.pickBuf(r, h)
			if b < 0 {
				rn.apply(c09op{kind: 'M', h: h, m: m})
			} else {
				rn.apply(c09op{kind: 'P', h: h, m: m, buf: b})
			}
		}
	}
	c.stat(fmt.Sprintf("size%d", size), 1)
	rn.emit(c, "random")
	if full && len(rn.ops) <= 7 {
		c.printf("SAMPLE %s => %s\n", rn.input(), strings.Join(rn.l1, " ; "))
	}
}

// exhaustive: every admissible sequence of <= depth operations naming only the three handles 0,1,2
// (0: a position with roads and groups, 1: its successor by a legal move, 2: an Alloc buffer), with a menu of
// two moves per source (its first legal move, one illegal move), every buffer choice, and Clone.
func c09Exhaustive(c *ctx, depth int, starts int, full bool) {
	r := c.r
	type task struct {
		first c09op
		size  int
		top   int
	}
	var tasks []task
	for s := 0; s < starts; s++ {
		size := 3 + s%2
		var first c09op
		for {
			first = c09Start(r, size)
			if first.kind == 'I' {
				break
			}
		}
		for top := 0; top < 21; top++ {
			tasks = append(tasks, task{first, size, top})
		}
	}
	// one task per (start, first operation); run in parallel, output in task order
	outs := make([]*bytes.Buffer, len(tasks))
	stats := make([]map[string]int64, len(tasks))
	var wg sync.WaitGroup
	sem := make(chan struct{}, 16)
	for i := range tasks {
		wg.Add(1)
		sem <- struct{}{}
		go func(i int) {
			defer wg.Done()
			defer func() { <-sem }()
			var buf bytes.Buffer
			sub := &ctx{w: bufio.NewWriterSize(&buf, 1<<16), r: nil, tier: c.tier, seed: c.seed, stats: map[string]int64{}, scale: c.scale}
			c09ExhaustiveFrom(sub, tasks[i].first, tasks[i].size, depth, full, tasks[i].top)
			sub.w.Flush()
			outs[i], stats[i] = &buf, sub.stats
		}(i)
	}
	wg.Wait()
	for i := range outs {
		c.w.Write(outs[i].Bytes())
		for k, v := range stats[i] {
			c.stat(k, v)
		}
	}
}

// all admissible sequences of <= depth operations whose first operation is menu entry `top`
func c09ExhaustiveFrom(c *ctx, first c09op, size int, depth int, full bool, top int) {
	{
		type choice struct {
			kind    byte
			h, buf  int
			illegal bool
		}
		var menu []choice
		for h := 0; h < 3; h++ {
			for _, ill := range []bool{false, true} {
				menu = append(menu, choice{'M', h, -1, ill})
				for b := 0; b < 3; b++ {
					if b != h {
						menu = append(menu, choice{'P', h, b, ill})
					}
				}
			}
			menu = append(menu, choice{'C', h, -1, false})
		}
		var rec func(prefix []choice)
		run := func(seq []choice) bool {
			rn := newC09run(false, full)
			defer rn.recoverAndEmit(c, "exhaustive")
			rn.apply(first)
			l0 := rn.objs[0].moves
			if len(l0) == 0 {
				return false
			}
			rn.apply(c09op{kind: 'M', h: 0, m: l0[len(l0)/2]})
			rn.apply(c09op{kind: 'A', size: size})
			for _, ch := range seq {
				if !rn.objs[ch.h].live {
					return false // source dead: not admissible
				}
				var m tak.Move
				if ch.illegal {
					m = tak.Move{X: 0, Y: 0, Type: tak.SlideLeft, Slides: tak.MkSlides(1)} // off the edge (fails late)
				} else {
					l := rn.objs[ch.h].moves
					if len(l) == 0 {
						return false
					}
					m = l[len(l)/3]
				}
				switch ch.kind {
				case 'M':
					rn.apply(c09op{kind: 'M', h: ch.h, m: m})
				case 'P':
					rn.apply(c09op{kind: 'P', h: ch.h, m: m, buf: ch.buf})
				case 'C':
					rn.apply(c09op{kind: 'C', h: ch.h})
				}
			}
			rn.emit(c, "exhaustive")
			return true
		}
		rec = func(prefix []choice) {
			if len(prefix) > 0 {
				if !run(prefix) {
					return
				}
			}
			if len(prefix) == depth {
				return
			}
			for i, ch := range menu {
				if len(prefix) == 0 && i != top {
					continue
				}
				rec(append(append([]choice(nil), prefix...), ch))
			}
		}
		rec(nil)
	}
}

func runC09(c *ctx) {
	if c.tier == "replay" {
		c09Replay(c)
		return
	}
	n := 2000
	if c.tier == "thorough" {
		n = 200000
	}
	if v := os.Getenv("VERIF_C09_PROF"); v != "" {
		f, _ := os.Create(v)
		pprof.StartCPUProfile(f)
		defer pprof.StopCPUProfile()
	}
	if v := os.Getenv("VERIF_C09_N"); v != "" {
		n, _ = strconv.Atoi(v)
	}
	// sequences are generated and run in parallel, each from its own seed drawn from c.r in order; output in order
	const chunk = 512
	samples := 0
	for lo := 0; lo < n; lo += chunk {
		hi := minInt(n, lo+chunk)
		seeds := make([]int64, hi-lo)
		for i := range seeds {
			seeds[i] = c.r.Int63()
		}
		outs := make([]*bytes.Buffer, hi-lo)
		stats := make([]map[string]int64, hi-lo)
		var wg sync.WaitGroup
		sem := make(chan struct{}, 16)
		for i := range seeds {
			wg.Add(1)
			sem <- struct{}{}
			go func(i int) {
				defer wg.Done()
				defer func() { <-sem }()
				var buf bytes.Buffer
				sub := &ctx{w: bufio.NewWriterSize(&buf, 1<<16), r: rand.New(rand.NewSource(seeds[i])), tier: c.tier, seed: seeds[i],
					stats: map[string]int64{}, scale: c.scale}
				k := lo + i
				// the legal move set is compared with the model on a fraction of the sequences (the model needs ~15 ms per
				// position for it); the Go oracle checks it on every handle of every sequence
				c09RandomSeq(sub, (c.quick() && k%17 == 0) || k%41 == 0, c.quick() || k%21 == 0)
				sub.w.Flush()
				outs[i], stats[i] = &buf, sub.stats
			}(i)
		}
		wg.Wait()
		for i := range outs {
			for _, line := range strings.SplitAfter(outs[i].String(), "\n") {
				if strings.HasPrefix(line, "SAMPLE ") {
					samples++
					if samples > 3 {
						continue
					}
				}
				c.w.WriteString(line)
			}
			for k, v := range stats[i] {
				c.stat(k, v)
			}
		}
	}
	if c.tier == "thorough" {
		c09Exhaustive(c, 4, 2, false)
	} else {
		c09Exhaustive(c, 2, 2, true)
	}
}

// ---------- replay: re-run the operation sequence stored in a replay file ----------

func c09ParseMove(s string) tak.Move {
	f := strings.Split(s, ":")
	x, _ := strconv.Atoi(f[0])
	y, _ := strconv.Atoi(f[1])
	t, _ := strconv.Atoi(f[2])
	sl, _ := strconv.ParseUint(f[3], 10, 32)
	return tak.Move{X: int8(x), Y: int8(y), Type: tak.MoveType(t), Slides: tak.Slides(sl)}
}

// inverse of enc() for well-formed positions: squares from the bitboards, reserves from the counts
func c09ParsePos(s string) c09op {
	f := strings.Fields(s)
	n, _ := strconv.Atoi(f[0])
	u := func(i int) uint64 { v, _ := strconv.ParseUint(f[i], 10, 64); return v }
	ws, wc := int(u(2)), int(u(3))
	ply, _ := strconv.Atoi(f[6])
	W, S, C := u(7), u(9), u(10)
	hs, st := strings.Split(f[11], ","), strings.Split(f[12], ",")
	board := make([][]tak.Square, n)
	usedS, usedC := 0, 0
	for y := 0; y < n; y++ {
		board[y] = make([]tak.Square, n)
		for x := 0; x < n; x++ {
			i := uint(x + y*n)
			h, _ := strconv.Atoi(hs[i])
			if h == 0 {
				continue
			}
			stk, _ := strconv.ParseUint(st[i], 10, 64)
			sq := make(tak.Square, h)
			col := tak.Black
			if W&(1<<i) != 0 {
				col = tak.White
			}
			kind := tak.Flat
			if S&(1<<i) != 0 {
				kind = tak.Standing
			} else if C&(1<<i) != 0 {
				kind = tak.Capstone
			}
			sq[0] = tak.MakePiece(col, kind)
			for j := 1; j < h; j++ {
				cc := tak.White
				if stk&(1<<uint(j-1)) != 0 {
					cc = tak.Black
				}
				sq[j] = tak.MakePiece(cc, tak.Flat)
			}
			for _, pc := range sq {
				if pc.Color() == tak.White {
					if pc.Kind() == tak.Capstone {
						usedC++
					} else {
						usedS++
					}
				}
			}
			board[y][x] = sq
		}
	}
	cfg := tak.Config{Size: n, BlackWinsTies: f[1] == "1", Pieces: ws + usedS, Capstones: wc + usedC}
	return c09op{kind: 'I', cfg: cfg, board: board, ply: ply}
}

func c09Replay(c *ctx) {
	if len(c.args) < 1 {
		fmt.Fprintln(os.Stderr, "replay file missing")
		os.Exit(2)
	}
	raw, err := os.ReadFile(c.args[0])
	if err != nil {
		fmt.Fprintln(os.Stderr, err)
		os.Exit(2)
	}
	var data struct {
		Input string `json:"input"`
	}
	if err := json.Unmarshal(raw, &data); err != nil {
		fmt.Fprintln(os.Stderr, err)
		os.Exit(2)
	}
	parts := strings.Split(data.Input, ";")
	rn := newC09run(strings.Contains(parts[0], "legal=1"), true)
	for _, t := range parts[1:] {
		f := strings.Fields(t)
		if len(f) == 0 {
			continue
		}
		at := func(i int) int { v, _ := strconv.Atoi(f[i]); return v }
		switch f[0] {
		case "I":
			rn.apply(c09ParsePos(strings.TrimSpace(strings.TrimSpace(t)[1:])))
		case "N":
			rn.apply(c09op{kind: 'N', cfg: tak.Config{Size: at(1), BlackWinsTies: f[2] == "1", Pieces: at(3), Capstones: at(4)}})
		case "A":
			rn.apply(c09op{kind: 'A', size: at(1)})
		case "M":
			rn.apply(c09op{kind: 'M', h: at(1), m: c09ParseMove(f[2])})
		case "P":
			rn.apply(c09op{kind: 'P', h: at(1), m: c09ParseMove(f[2]), buf: at(3)})
		case "C":
			rn.apply(c09op{kind: 'C', h: at(1)})
		}
	}
	rn.emit(c, "replay")
}
