package main

// C20: first-player-advantage opening scripts always produce legal, self-accepted moves.
//
// The code under test (cmd/internal/playtak/fpa.go, friendly.go) is in an internal package, so the
// enumeration, the implementation runs and the oracle live in an in-package driver
// (harness/overlay/fpa_enum_test.go.txt, compiled into build/fpa.test by harness/build_c20.sh with
// `go test -c -overlay`; a copy of oracle_rules.go is overlaid into the same test binary).  This
// file builds and runs that binary and relays its output, which already is in the protocol of
// common.go (CASE / ORACLE-FAIL / SAMPLE / #STAT).  The domain is finite and enumerated
// completely in both tiers; the seed is not used.
//
//   CASE <variant> <size> <W|B> <m0> <m1> | <nodes> <scripted> <illegal> <selfrej> <crash> ; <trace>
//   CASE <variant> <size> <W|B> root      | <number of accepted 2-ply prefixes>
//   CASE <variant> <size> <W|B> total     | <nodes> <scripted> <illegal> <selfrej> <crash>

import (
	"encoding/json"
	"fmt"
	"os"
	"os/exec"
	"path/filepath"
)

func init() { register("C20", runC20) }

func c20Dirs() (harness, build string) {
	exe, err := os.Executable()
	if err != nil {
		panic(err)
	}
	exe, _ = filepath.EvalSymlinks(exe)
	build = filepath.Dir(exe)
	harness = filepath.Join(filepath.Dir(build), "harness")
	return
}

func runC20(c *ctx) {
	harness, build := c20Dirs()
	cmd := exec.Command("bash", filepath.Join(harness, "build_c20.sh"))
	cmd.Env = os.Environ()
	if out, err := cmd.CombinedOutput(); err != nil {
		fmt.Fprintf(os.Stderr, "build_c20.sh failed: %v\n%s\n", err, out)
		os.Exit(3)
	}
	env := append(os.Environ(), "VERIF_C20_MODE=enum", "VERIF_C20_TIER="+c.tier)
	if c.tier == "replay" {
		if len(c.args) < 1 {
			fmt.Fprintln(os.Stderr, "usage: runimpl C20 replay <seed> <replay.json>")
			os.Exit(2)
		}
		data, err := os.ReadFile(c.args[0])
		if err != nil {
			panic(err)
		}
		var rp struct {
			Input string `json:"input"`
		}
		if err := json.Unmarshal(data, &rp); err != nil {
			panic(err)
		}
		env = append(os.Environ(), "VERIF_C20_MODE=replay", "VERIF_C20_INPUT="+rp.Input)
	}
	c.w.Flush()
	run := exec.Command(filepath.Join(build, "fpa.test"), "-test.run", "^TestVerifC20$", "-test.timeout", "0")
	run.Env = env
	run.Stdout = os.Stdout
	run.Stderr = os.Stderr
	if err := run.Run(); err != nil {
		fmt.Fprintf(os.Stderr, "fpa.test failed: %v\n", err)
		os.Exit(3)
	}
}
