package main

// C10: TPS text and positions round-trip without loss.
// CASE F <enc p> | <tps hex> <parse class> <Equal> <Hash equal> <reserves equal> <ply equal> | <enc parsed>
// CASE S <string hex> | <parse class> <re-formatted hex> | <enc parsed>
// Family client-line: the same round trip observed on the wire - positions handed to tei.Player.TEIGetMove, the `position tps`
// line the engine process received (tei.test of harness/build_c17.sh, fake engine) parsed back and compared with the position.
//
// verif:needs c17

import (
	"encoding/hex"
	"fmt"
	"math/rand"
	"runtime"
	"strings"
	"sync"

	"github.com/nelhage/taktician/ptn"
	"github.com/nelhage/taktician/tak"
)

func init() { register("C10", runC10) }

func parseTPSClass(s string) (cls string, p *tak.Position) {
	panicked, _ := safely(func() {
		q, err := ptn.ParseTPS(s)
		if err != nil {
			cls = "ERR"
		} else {
			cls = "OK"
			p = q
		}
	})
	if panicked {
		return "PANIC", nil
	}
	return
}

func emitC10F(c *ctx, p *tak.Position, kind string) {
	var s string
	if panicked, msg := safely(func() { s = ptn.FormatTPS(p) }); panicked {
		c.printf("ORACLE-FAIL format-panic | %s | %s | FormatTPS must not crash\n", enc(p), msg)
		return
	}
	cls, q := parseTPSClass(s)
	eq, heq, req, peq := 0, 0, 0, 0
	l2 := "-"
	if q != nil {
		eq = b2i(p.Equal(q) && q.Equal(p))
		heq = b2i(p.Hash() == q.Hash())
		a1, b1, c1, d1 := tak.VerifReserves(p)
		a2, b2, c2, d2 := tak.VerifReserves(q)
		req = b2i(a1 == a2 && b1 == b2 && c1 == c2 && d1 == d2)
		peq = b2i(p.MoveNumber() == q.MoveNumber() && p.ToMove() == q.ToMove())
		l2 = enc(q)
	}
	c.printf("CASE F %s | %s %s %d %d %d %d | %s\n", enc(p), hex.EncodeToString([]byte(s)), cls, eq, heq, req, peq, l2)
	c.stat("cases_format", 1)
	c.stat("kind_"+kind, 1)
	c.stat(fmt.Sprintf("size%d", p.Size()), 1)
	if cls == "OK" && eq+heq+req+peq == 4 {
		c10Good = append(c10Good, c10Rec{p, s})
	}
	if cls != "OK" || eq+heq+req+peq != 4 {
		why := []string{}
		if cls != "OK" {
			why = append(why, "text does not parse: "+cls)
		} else {
			for i, n := range []string{"not Equal", "hash differs", "reserves differ", "move number / side differ"} {
				if []int{eq, heq, req, peq}[i] == 0 {
					why = append(why, n)
				}
			}
		}
		names := map[string]string{"not Equal": "roundtrip-not-equal", "hash differs": "roundtrip-hash-differs", "reserves differ": "roundtrip-reserves-differ",
			"move number / side differ": "roundtrip-ply-differs"}
		cl := "format-unparseable"
		if cls == "OK" {
			cl = names[why[0]]
		}
		c.printf("ORACLE-FAIL %s | %s | FormatTPS=%q: %s | parsing the text back yields an equal position with the same hash, reserves, side and move number\n",
			cl, enc(p), s, strings.Join(why, ", "))
	}
}

// c10Good: positions whose sequential round trip was judged good, with their text; the concurrent family re-does them
type c10Rec struct {
	p *tak.Position
	s string
}

var c10Good []c10Rec

// c10Concurrent: FormatTPS and ParseTPS called from several goroutines at once on positions of different sizes (selfplay and the
// analysis server do this); a pure codec gives every caller what it gives a sequential caller.
func c10Concurrent(c *ctx, rounds int) {
	if len(c10Good) == 0 {
		return
	}
	old := runtime.GOMAXPROCS(0)
	if old < 4 {
		runtime.GOMAXPROCS(4)
		defer runtime.GOMAXPROCS(old)
	}
	const workers = 6
	var mu sync.Mutex
	var bad []string
	var calls int64
	var wg sync.WaitGroup
	for w := 0; w < workers; w++ {
		wg.Add(1)
		go func(w int) {
			defer wg.Done()
			n := 0
			for k := 0; k < rounds; k++ {
				rec := c10Good[(w*7919+k*31+k*k)%len(c10Good)]
				what := ""
				var s string
				var q *tak.Position
				var err error
				if pk, msg := safely(func() { s = ptn.FormatTPS(rec.p); q, err = ptn.ParseTPS(rec.s) }); pk {
					what = "panic: " + msg
				} else if s != rec.s {
					what = fmt.Sprintf("FormatTPS=%q", s)
				} else if err != nil {
					what = "ParseTPS: " + err.Error()
				} else if !q.Equal(rec.p) || q.Hash() != rec.p.Hash() || q.MoveNumber() != rec.p.MoveNumber() {
					what = "ParseTPS gives another position: " + enc(q)
				}
				n++
				if what != "" {
					mu.Lock()
					bad = append(bad, fmt.Sprintf("ORACLE-FAIL concurrent-roundtrip-differs | %s ;; called while %d other goroutines format and parse positions of sizes 3..8 | %s | the sequential answer %q and an equal position back",
						enc(rec.p), workers-1, what, rec.s))
					mu.Unlock()
					break
				}
			}
			mu.Lock()
			calls += int64(n)
			mu.Unlock()
		}(w)
	}
	wg.Wait()
	c.stat("concurrent_calls", calls)
	for i, b := range bad {
		if i < 3 {
			c.printf("%s\n", b)
		}
	}
}

func emitC10S(c *ctx, s string, canonical bool) {
	cls, q := parseTPSClass(s)
	re, l2 := "-", "-"
	if q != nil {
		re = hex.EncodeToString([]byte(ptn.FormatTPS(q)))
		l2 = enc(q)
	}
	c.printf("CASE S %s | %s %s | %s\n", hex.EncodeToString([]byte(s)), cls, re, l2)
	if canonical {
		c.stat("cases_canonical_strings", 1)
		if cls != "OK" {
			c.printf("ORACLE-FAIL canonical-rejected | %s | %s | a canonical TPS string parses\n", hex.EncodeToString([]byte(s)), cls)
		} else if got := ptn.FormatTPS(q); got != s {
			c.printf("ORACLE-FAIL canonical-not-reproduced | %s | re-formatted as %q | formatting the parsed position reproduces the string %q\n",
				hex.EncodeToString([]byte(s)), got, s)
		}
	} else {
		c.stat("cases_mutated_strings", 1)
		c.stat("mutated_"+cls, 1)
		if cls == "PANIC" {
			c.printf("ORACLE-FAIL tps-panic | %s | PANIC | malformed TPS gives an error, never a crash\n", hex.EncodeToString([]byte(s)))
		}
	}
}

// defaultBoard: a random well-formed board that fits the DEFAULT piece counts of its size (so that the
// reserves recomputed by ParseTPS match), with walls and capstones on stacks, tall stacks, empty runs.
func defaultBoard(r *rand.Rand, size int) *tak.Position {
	pieces := []int{0, 0, 0, 10, 15, 21, 30, 40, 50}[size]
	caps := []int{0, 0, 0, 0, 0, 1, 1, 2, 2}[size]
	left := [2]int{pieces, pieces}
	capsLeft := [2]int{caps, caps}
	board := make([][]tak.Square, size)
	fill := 0.15 + 0.8*r.Float64()
	for y := range board {
		board[y] = make([]tak.Square, size)
		for x := range board[y] {
			if r.Float64() > fill {
				continue
			}
			h := 1
			if r.Intn(4) == 0 {
				h = 1 + r.Intn(12)
			}
			var sq tak.Square
			for j := 0; j < h; j++ {
				ci := r.Intn(2)
				col := []tak.Color{tak.White, tak.Black}[ci]
				if j == 0 && capsLeft[ci] > 0 && r.Intn(5) == 0 {
					capsLeft[ci]--
					sq = append(sq, tak.MakePiece(col, tak.Capstone))
					continue
				}
				if left[ci] == 0 {
					break
				}
				left[ci]--
				k := tak.Flat
				if j == 0 && r.Intn(5) == 0 {
					k = tak.Standing
				}
				sq = append(sq, tak.MakePiece(col, k))
			}
			board[y][x] = sq
		}
	}
	move := r.Intn(80)
	p, err := tak.FromSquares(tak.Config{Size: size}, board, move)
	if err != nil {
		panic(err)
	}
	return p
}

func mutateTPS(r *rand.Rand, s string) string {
	b := []byte(s)
	if len(b) == 0 {
		return "x"
	}
	switch r.Intn(10) {
	case 0: // drop a byte
		i := r.Intn(len(b))
		b = append(b[:i], b[i+1:]...)
	case 1: // duplicate a byte
		i := r.Intn(len(b))
		b = append(b[:i+1], b[i:]...)
	case 2: // swap
		if len(b) > 1 {
			i := r.Intn(len(b) - 1)
			b[i], b[i+1] = b[i+1], b[i]
		}
	case 3: // truncate
		b = b[:r.Intn(len(b))]
	case 4: // insert a separator / marker
		i := r.Intn(len(b) + 1)
		ins := []byte(",/ xSC12")[r.Intn(8)]
		b = append(b[:i], append([]byte{ins}, b[i:]...)...)
	case 5: // replace by a random relevant byte
		b[r.Intn(len(b))] = []byte(",/ xSC1239x0-")[r.Intn(13)]
	case 6: // non-ASCII / control byte
		b[r.Intn(len(b))] = byte(r.Intn(256))
	case 7: // huge number at the end
		b = append(b, []byte("99999999999999999999")...)
	case 8: // move a '/' (ragged rows with the same square total)
		for k := 0; k < 3; k++ {
			i := r.Intn(len(b))
			if b[i] == '/' {
				b[i] = ','
				j := r.Intn(len(b))
				if b[j] == ',' {
					b[j] = '/'
				}
				break
			}
		}
	case 9: // two mutations
		return mutateTPS(r, mutateTPS(r, string(b)))
	}
	return string(b)
}

// c10ClientLines: the TEI client's `position tps` line (observation point of the property).  Reachable positions of random games
// go through tei.Client.NewGame / Player.TEIGetMove to a fake engine process; one client serves several games, and boards come back
// with the same side to move at LATER move numbers (a shuffle returned to it; the same opening in the next game) - a client that
// remembers a line per board (or per hash, which does not cover the ply) would send the old move number.  Oracle: ParseTPS of the
// transmitted text is Equal to the position (both ways), has the same hash, reserves, side to move and move number.
func c10ClientLines(c *ctx) {
	r := c.r
	bin := c17Build()
	type sess struct {
		items []string
		want  []*tak.Position
	}
	later := func(p *tak.Position, plies int) *tak.Position {
		n := p.Size()
		board := make([][]tak.Square, n)
		for y := range board {
			board[y] = make([]tak.Square, n)
			for x := range board[y] {
				board[y][x] = p.At(x, y)
			}
		}
		q, err := tak.FromSquares(tak.Config{Size: n}, board, p.MoveNumber()+plies)
		if err != nil {
			panic(err)
		}
		return q
	}
	var ss []sess
	for k := 0; k < 10*c.scale; k++ {
		var s sess
		var carry []*tak.Position
		for g := 0; g < 1+r.Intn(3); g++ {
			size := 3 + r.Intn(6)
			if g > 0 && len(carry) > 0 && r.Intn(2) == 0 {
				size = carry[0].Size()
			}
			s.items = append(s.items, fmt.Sprintf("G %d", size))
			ps, _ := randomGame(r, tak.Config{Size: size}, 6+r.Intn(30), []int{-1, 2, 1, 5}[r.Intn(4)], false)
			var asked []*tak.Position
			for i, p := range ps {
				if over, _ := p.GameOver(); over || (i > 8 && r.Intn(3) != 0) {
					continue
				}
				asked = append(asked, p)
				if r.Intn(3) == 0 {
					asked = append(asked, later(p, 2*(1+r.Intn(3)))) // the same board and side to move, later
				}
				if r.Intn(4) == 0 {
					for _, o := range carry { // a board of an earlier game of this client, at another move number
						if o.Size() == size {
							asked = append(asked, later(o, 2*r.Intn(4)))
							break
						}
					}
				}
			}
			for _, p := range asked {
				s.items = append(s.items, "P "+ptn.FormatTPS(p))
				s.want = append(s.want, p)
			}
			carry = append(asked, carry...)
		}
		ss = append(ss, s)
	}
	var reqs []string
	for i, s := range ss {
		reqs = append(reqs, fmt.Sprintf("K %d %s", i, hex.EncodeToString([]byte(strings.Join(s.items, "\n")))))
	}
	resp := c17Drive(bin, "c10-clients-"+c.tier, reqs)
	for i, s := range ss {
		f := strings.Split(resp[i], " ")
		in := "client-session;" + strings.Join(s.items, ";")
		if len(f) < 4 || f[0] != "K" {
			c.printf("ORACLE-FAIL client-driver | %s | %s | a K response\n", in, resp[i])
			continue
		}
		raw, _ := hex.DecodeString(f[3])
		var lines []string
		for _, l := range strings.Split(string(raw), "\n") {
			w := strings.Fields(l)
			if len(w) == 3 && w[0] != "-" {
				b, _ := hex.DecodeString(w[0])
				if strings.HasPrefix(string(b), "position ") {
					lines = append(lines, string(b))
				}
			}
		}
		c.stat("client_sessions", 1)
		if len(lines) != len(s.want) {
			c.printf("ORACLE-FAIL client-line-missing | %s | %d position lines for %d requests (%s) | one position line per request\n", in, len(lines), len(s.want), f[2])
			continue
		}
		for k, l := range lines {
			p := s.want[k]
			c.stat("client_lines", 1)
			text := strings.TrimPrefix(l, "position tps ")
			cls, q := parseTPSClass(text)
			why := ""
			switch {
			case !strings.HasPrefix(l, "position tps "):
				why = "not a `position tps` line"
			case cls != "OK":
				why = "the text does not parse: " + cls
			case !(p.Equal(q) && q.Equal(p)):
				why = "not Equal"
			case p.Hash() != q.Hash():
				why = "hash differs"
			case p.MoveNumber() != q.MoveNumber() || p.ToMove() != q.ToMove():
				why = fmt.Sprintf("move number / side differ (ply %d sent for ply %d)", q.MoveNumber(), p.MoveNumber())
			default:
				a1, b1, c1, d1 := tak.VerifReserves(p)
				a2, b2, c2, d2 := tak.VerifReserves(q)
				if a1 != a2 || b1 != b2 || c1 != c2 || d1 != d2 {
					why = "reserves differ"
				}
			}
			if why != "" {
				c.printf("ORACLE-FAIL client-line-roundtrip | %s | request %d (%s): the engine received %q: %s | the transmitted TPS parses back to an equal position with the same hash, reserves, side and move number\n",
					in, k+1, enc(p), l, why)
				break
			}
		}
		// the positions are also model cases of the plain round trip
		for k, p := range s.want {
			if k%4 == 0 {
				emitC10F(c, p, "client")
			}
		}
	}
}

func runC10(c *ctx) {
	if c.tier == "replay" {
		in := readReplay(c).Input
		conc := strings.Contains(in, " ;; ")
		if i := strings.Index(in, " ;; "); i >= 0 {
			in = in[:i]
		}
		if p, err := decodeEnc(in); err == nil {
			emitC10F(c, p, "replay")
			if conc {
				for s := 3; s <= 8; s++ {
					emitC10F(c, defaultBoard(c.r, s), "replay")
				}
				c10Concurrent(c, 4000)
			}
		} else if b, err := hex.DecodeString(strings.TrimSpace(in)); err == nil {
			emitC10S(c, string(b), false)
		}
		return
	}
	r := c.r
	var texts []string
	for g := 0; g < 40*c.scale; g++ {
		size := 3 + g%6
		pol := []int{-1, 2, 1, 5}[r.Intn(4)]
		ps, _ := randomGame(r, tak.Config{Size: size}, 10+r.Intn(100), pol, r.Intn(8) == 0)
		for i, p := range ps {
			if i < 3 || i >= len(ps)-2 || r.Intn(5) == 0 {
				emitC10F(c, p, "playout")
				if r.Intn(4) == 0 {
					texts = append(texts, ptn.FormatTPS(p))
				}
			}
		}
	}
	for b := 0; b < 400*c.scale; b++ {
		size := 3 + b%6
		p := defaultBoard(r, size)
		emitC10F(c, p, "constructed")
		if r.Intn(3) == 0 {
			texts = append(texts, ptn.FormatTPS(p))
		}
	}
	// canonical strings: FormatTPS output of default-count positions IS the canonical grammar
	// (maximal runs, no leading zeros, counts within the default reserves); they are re-parsed as strings
	for _, s := range texts {
		emitC10S(c, s, true)
	}
	// the malformed stream
	for _, s := range texts {
		for k := 0; k < 3; k++ {
			emitC10S(c, mutateTPS(r, s), false)
		}
	}
	for _, s := range []string{"", " ", "  ", "x3/x3/x3 1 1", "x3/x3/x3 1", "x3/x3/x3 3 1", "x3/x3/x3 1 0", "x3/x3/x3 2 -5", "x,,x/x3/x3 1 1", "S,x2/x3/x3 1 2",
		"x3/x3/C,x2 2 2", "x9/x3/x3 1 1", "x3/x3 1 1", "x4/x2/x3 1 1", "x,x/x,x,x,x/x,x,x 1 1", "1S1,x2/x3/x3 1 2", "x3/x3/x3 1 99999999999999999999",
		"x3/x3/x3 1 9223372036854775807", "x3/x3/x3 1 4611686018427387905", "12345678/x8/x8/x8/x8/x8/x8/x8 1 1", "x0,x3/x3/x3 1 1", "xx/x3/x3 1 1",
		strings.Repeat("1", 70) + ",x2/x3/x3 1 40", strings.Repeat("12", 140) + "C,x2/x3/x3 1 40"} {
		emitC10S(c, s, false)
	}
	c10ClientLines(c)
	c10Concurrent(c, 1500*c.scale)
}
