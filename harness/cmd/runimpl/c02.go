package main

// C02: game end, winner, reason and flat counts follow the rules in every position.
// CASE <enc position> | <over winner reason wflats bflats result> | <white groups ; black groups>

import (
	"fmt"
	"math/rand"
	"strings"

	"github.com/nelhage/taktician/ptn"
	"github.com/nelhage/taktician/tak"
)

func init() { register("C02", runC02) }

func c02L1(p *tak.Position) string {
	d := p.WinDetails()
	over, w := p.GameOver()
	reason := "F"
	if d.Reason == tak.RoadWin {
		reason = "R"
	}
	res := "-"
	if over {
		if panicked, _ := safely(func() { r := ptn.ResultFromGame(p); res = r.Result }); panicked {
			res = "PANIC"
		}
	}
	if over != d.Over || w != d.Winner {
		return fmt.Sprintf("INCONSISTENT GameOver=(%v,%s) WinDetails=(%v,%s)", over, colorStr(w), d.Over, colorStr(d.Winner))
	}
	return fmt.Sprintf("%d %s %s %d %d %s", b2i(over), colorStr(w), reason, d.WhiteFlats, d.BlackFlats, res)
}

func groupsStr(gs []uint64) string {
	s := make([]string, len(gs))
	for i, g := range gs {
		s[i] = fmt.Sprint(g)
	}
	if len(s) == 0 {
		return "-"
	}
	return strings.Join(s, ",")
}

func emitC02(c *ctx, p *tak.Position, kind string) {
	l1 := c02L1(p)
	a := p.Analysis()
	c.printf("CASE %s | %s | %s ; %s\n", enc(p), l1, groupsStr(a.WhiteGroups), groupsStr(a.BlackGroups))
	c.stat("cases", 1)
	c.stat("kind_"+kind, 1)
	c.stat(fmt.Sprintf("size%d", p.Size()), 1)
	// direct oracle: DFS road search on At() squares
	ab := absOf(p)
	over, win, road := ab.outcome()
	wf, bf := ab.flatCounts()
	reason := "F"
	if road {
		reason = "R"
	}
	// the reported reason for an unfinished game is "flats" (no road); the property speaks of finished games
	res := "-"
	if over {
		switch {
		case win == tak.NoColor:
			res = "1/2-1/2"
		case win == tak.White:
			res = reason + "-0"
		default:
			res = "0-" + reason
		}
		c.stat("over_"+reason+"_"+colorStr(win), 1)
		if ab.hasRoad(tak.White) && ab.hasRoad(tak.Black) {
			c.stat("double_road", 1)
		}
	} else {
		c.stat("over_no", 1)
	}
	want := fmt.Sprintf("%d %s %s %d %d %s", b2i(over), colorStr(win), reason, wf, bf, res)
	if want != l1 {
		cls := "wrong-outcome"
		fs := strings.Fields(l1)
		ws := strings.Fields(want)
		if len(fs) == len(ws) && len(fs) >= 6 {
			switch {
			case fs[0] != ws[0]:
				cls = "wrong-over"
			case fs[1] != ws[1]:
				cls = "wrong-winner"
			case fs[2] != ws[2]:
				cls = "wrong-reason"
			case fs[3] != ws[3] || fs[4] != ws[4]:
				cls = "wrong-flat-count"
			}
		}
		c.printf("ORACLE-FAIL %s | %s | %s | %s\n", cls, enc(p), l1, want)
	}
}

// roadBoard: constructed boards with long bending roads, capstones on the road, walls cutting it.
func roadBoard(r *rand.Rand, size int) *tak.Position {
	board := make([][]tak.Square, size)
	for y := range board {
		board[y] = make([]tak.Square, size)
	}
	put := func(x, y int, col tak.Color, k tak.Kind) {
		sq := tak.Square{tak.MakePiece(col, k)}
		for j := r.Intn(3); j > 0; j-- {
			c := tak.White
			if r.Intn(2) == 0 {
				c = tak.Black
			}
			sq = append(sq, tak.MakePiece(c, tak.Flat))
		}
		board[y][x] = sq
	}
	// a random self-avoiding walk from one edge towards the opposite edge
	for walks := 1 + r.Intn(2); walks > 0; walks-- {
		col := tak.White
		if r.Intn(2) == 0 {
			col = tak.Black
		}
		horizontal := r.Intn(2) == 0
		x, y := 0, r.Intn(size)
		if !horizontal {
			x, y = r.Intn(size), 0
		}
		for steps := 0; steps < size*size; steps++ {
			k := tak.Flat
			if r.Intn(8) == 0 {
				k = tak.Capstone
			}
			put(x, y, col, k)
			if (horizontal && x == size-1) || (!horizontal && y == size-1) {
				break
			}
			d := r.Intn(4)
			nx, ny := x, y
			switch {
			case d <= 1 && horizontal, d == 2 && !horizontal && x+1 < size:
				nx++
			case d <= 1 && !horizontal, d == 2 && horizontal && y+1 < size:
				ny++
			case d == 3 && horizontal && y > 0:
				ny--
			case d == 3 && !horizontal && x > 0:
				nx--
			}
			if nx >= size || ny >= size {
				break
			}
			x, y = nx, ny
		}
	}
	// sabotage: sometimes a wall or an enemy piece on one road square; sometimes fill the rest
	for k := r.Intn(3); k > 0; k-- {
		x, y := r.Intn(size), r.Intn(size)
		if len(board[y][x]) > 0 {
			col := board[y][x][0].Color()
			if r.Intn(2) == 0 {
				board[y][x][0] = tak.MakePiece(col, tak.Standing)
			} else {
				board[y][x][0] = tak.MakePiece(col.Flip(), tak.Flat)
			}
		}
	}
	if r.Intn(4) == 0 {
		for y := range board {
			for x := range board[y] {
				if len(board[y][x]) == 0 && r.Intn(10) != 0 {
					col := tak.White
					if r.Intn(2) == 0 {
						col = tak.Black
					}
					k := tak.Flat
					if r.Intn(3) == 0 {
						k = tak.Standing
					}
					put(x, y, col, k)
				}
			}
		}
	}
	cfg := tak.Config{Size: size, BlackWinsTies: r.Intn(3) == 0}
	fitReserves(r, &cfg, board)
	p, err := tak.FromSquares(cfg, board, 2+r.Intn(40))
	if err != nil {
		panic(err)
	}
	return p
}

// snakeBoard: a boustrophedon road that winds across the board (rows or columns two apart joined
// alternately at the two edges), so that the distance inside the group is far larger than the board;
// optionally cut at one square (then there is no road) or with a second colour's straight road.
func snakeBoard(r *rand.Rand, size int) *tak.Position {
	board := make([][]tak.Square, size)
	for y := range board {
		board[y] = make([]tak.Square, size)
	}
	col := tak.White
	if r.Intn(2) == 0 {
		col = tak.Black
	}
	transpose := r.Intn(2) == 0
	flip := r.Intn(2) == 0
	// the horizontal runs use columns x0..x1; with a margin the runs are not roads themselves and only
	// the whole winding path joins bottom and top
	x0, x1 := 0, size-1
	if size >= 4 {
		switch r.Intn(4) {
		case 0:
			x0 = 1
		case 1:
			x1 = size - 2
		case 2, 3:
			x0, x1 = 1, size-2
		}
	}
	var path [][2]int
	dirRight := true
	for row := 0; row < size; row += 2 {
		if dirRight {
			for x := x0; x <= x1; x++ {
				path = append(path, [2]int{x, row})
			}
			if row+1 < size {
				path = append(path, [2]int{x1, row + 1})
			}
		} else {
			for x := x1; x >= x0; x-- {
				path = append(path, [2]int{x, row})
			}
			if row+1 < size {
				path = append(path, [2]int{x0, row + 1})
			}
		}
		dirRight = !dirRight
	}
	cut := -1
	if r.Intn(3) == 0 {
		cut = r.Intn(len(path))
	}
	for i, xy := range path {
		x, y := xy[0], xy[1]
		if flip {
			x = size - 1 - x
		}
		if transpose {
			x, y = y, x
		}
		k := tak.Flat
		if r.Intn(10) == 0 {
			k = tak.Capstone
		}
		c := col
		if i == cut {
			if r.Intn(2) == 0 {
				k = tak.Standing
			} else {
				c = col.Flip()
			}
		}
		board[y][x] = tak.Square{tak.MakePiece(c, k)}
	}
	// fill some of the remaining squares with walls of either colour / enemy flats (never joining rows)
	for y := range board {
		for x := range board[y] {
			if len(board[y][x]) == 0 && r.Intn(3) == 0 {
				c := tak.White
				if r.Intn(2) == 0 {
					c = tak.Black
				}
				k := tak.Standing
				if c != col && r.Intn(2) == 0 {
					k = tak.Flat
				}
				board[y][x] = tak.Square{tak.MakePiece(c, k)}
			}
		}
	}
	cfg := tak.Config{Size: size, BlackWinsTies: r.Intn(3) == 0}
	fitReserves(r, &cfg, board)
	p, err := tak.FromSquares(cfg, board, 2+r.Intn(40))
	if err != nil {
		panic(err)
	}
	return p
}

// completionCases: a road board with one road square emptied, then the road is completed BY A MOVE (placing a
// flat, placing a capstone, sliding a neighbouring piece in); the positions come out of Position.Move, so the
// incrementally maintained analysis is what gets tested; a few further placements elsewhere follow.
func completionCases(c *ctx, size int) {
	r := c.r
	full := snakeBoard(r, size)
	if r.Intn(2) == 0 {
		full = roadBoard(r, size)
	}
	a := absOf(full)
	// pick a road square holding a single road piece
	var cand [][2]int
	for y := 0; y < size; y++ {
		for x := 0; x < size; x++ {
			s := a.sq[y][x]
			if len(s) == 1 && (s[0].Kind() == tak.Flat || s[0].Kind() == tak.Capstone) {
				cand = append(cand, [2]int{x, y})
			}
		}
	}
	if len(cand) == 0 {
		return
	}
	xy := cand[r.Intn(len(cand))]
	col := a.sq[xy[1]][xy[0]][0].Color()
	board := boardOf(full)
	board[xy[1]][xy[0]] = nil
	cfg := tak.Config{Size: size, BlackWinsTies: r.Intn(3) == 0}
	fitReserves(r, &cfg, board)
	cfg.Pieces += 3
	if cfg.Pieces > 250 {
		cfg.Pieces = 250
	}
	cfg.Capstones += 2
	ply := 10
	if col == tak.Black {
		ply = 11
	}
	p0, err := tak.FromSquares(cfg, board, ply)
	if err != nil {
		return
	}
	var moves []tak.Move
	moves = append(moves, tak.Move{X: int8(xy[0]), Y: int8(xy[1]), Type: tak.PlaceFlat}, tak.Move{X: int8(xy[0]), Y: int8(xy[1]), Type: tak.PlaceCapstone},
		tak.Move{X: int8(xy[0]), Y: int8(xy[1]), Type: tak.PlaceStanding})
	// slides of one piece from each neighbour into the gap
	for _, d := range []struct {
		dx, dy int
		t      tak.MoveType
	}{{-1, 0, tak.SlideRight}, {1, 0, tak.SlideLeft}, {0, -1, tak.SlideUp}, {0, 1, tak.SlideDown}} {
		nx, ny := xy[0]+d.dx, xy[1]+d.dy
		if nx >= 0 && ny >= 0 && nx < size && ny < size {
			moves = append(moves, tak.Move{X: int8(nx), Y: int8(ny), Type: d.t, Slides: tak.MkSlides(1)})
		}
	}
	// ... and the road completed by FLATTENING: the gap holds a wall (the mover's own or the opponent's) and a neighbouring
	// square holds the mover's capstone on top of own flats (possibly carrying more); the capstone moves onto the wall.  The
	// colour bitboards of the mover do not change when it flattens its own wall.
	type pm struct {
		p *tak.Position
		m tak.Move
	}
	var flat []pm
	for _, d := range []struct {
		dx, dy int
		t      tak.MoveType
	}{{-1, 0, tak.SlideRight}, {1, 0, tak.SlideLeft}, {0, -1, tak.SlideUp}, {0, 1, tak.SlideDown}} {
		nx, ny := xy[0]+d.dx, xy[1]+d.dy
		if nx < 0 || ny < 0 || nx >= size || ny >= size || r.Intn(2) == 0 {
			continue
		}
		b2 := boardOf(full)
		wallCol := col
		if r.Intn(3) == 0 {
			wallCol = col.Flip()
		}
		b2[xy[1]][xy[0]] = tak.Square{tak.MakePiece(wallCol, tak.Standing)}
		under := 1 + r.Intn(3)
		st := tak.Square{tak.MakePiece(col, tak.Capstone)}
		for k := 0; k < under; k++ {
			st = append(st, tak.MakePiece(col, tak.Flat))
		}
		b2[ny][nx] = st
		// two squares further back: the capstone arrives from a distance, dropping stones on own flats on the way
		cfg2 := tak.Config{Size: size, BlackWinsTies: r.Intn(3) == 0}
		fitReserves(r, &cfg2, b2)
		cfg2.Pieces += 3
		if cfg2.Pieces > 250 {
			cfg2.Pieces = 250
		}
		cfg2.Capstones++
		p2, err := tak.FromSquares(cfg2, b2, ply)
		if err != nil {
			continue
		}
		flat = append(flat, pm{p2, tak.Move{X: int8(nx), Y: int8(ny), Type: d.t, Slides: tak.MkSlides(1)}})
	}
	for _, f := range flat {
		// reach the position through Move as well (a quiet placement by each side first), so that the analysis the
		// flattening move starts from is itself an incrementally maintained one
		start := f.p
		if empties := emptySquares(start); len(empties) >= 2 && r.Intn(2) == 0 {
			e1, e2 := empties[r.Intn(len(empties))], empties[r.Intn(len(empties))]
			if e1 != e2 {
				if s1, err := start.Move(tak.Move{X: int8(e1[0]), Y: int8(e1[1]), Type: tak.PlaceStanding}); err == nil {
					if s2, err := s1.Move(tak.Move{X: int8(e2[0]), Y: int8(e2[1]), Type: tak.PlaceStanding}); err == nil {
						if over, _ := s2.GameOver(); !over {
							start = s2
						}
					}
				}
			}
		}
		q, err := start.Move(f.m)
		if err != nil {
			continue
		}
		emitC02(c, q, "completed-by-flattening")
		cur := q
		for k := 0; k < 2; k++ {
			legal := legalMoves(cur)
			if len(legal) == 0 {
				break
			}
			n, err := cur.Move(legal[r.Intn(len(legal))])
			if err != nil {
				break
			}
			cur = n
			emitC02(c, cur, "after-completion")
		}
	}
	for _, m := range moves {
		q, err := p0.Move(m)
		if err != nil {
			continue
		}
		emitC02(c, q, "completed-by-move")
		// the verdict must survive further moves elsewhere (the engine permits play past the end)
		cur := q
		for k := 0; k < 3; k++ {
			legal := legalMoves(cur)
			if len(legal) == 0 {
				break
			}
			n, err := cur.Move(legal[r.Intn(len(legal))])
			if err != nil {
				break
			}
			cur = n
			emitC02(c, cur, "after-completion")
		}
	}
}

// manyGroups: more road groups of at least two squares than the board is wide (6x6 and larger), optionally with a
// real road among them, for both colours.
func manyGroups(r *rand.Rand, size int) *tak.Position {
	board := make([][]tak.Square, size)
	for y := range board {
		board[y] = make([]tak.Square, size)
	}
	occupied := func(x, y int) bool { return x >= 0 && y >= 0 && x < size && y < size && len(board[y][x]) > 0 }
	touches := func(x, y int, col tak.Color) bool {
		for _, d := range [][2]int{{1, 0}, {-1, 0}, {0, 1}, {0, -1}} {
			nx, ny := x+d[0], y+d[1]
			if occupied(nx, ny) && board[ny][nx][0].Color() == col && board[ny][nx][0].Kind() != tak.Standing {
				return true
			}
		}
		return false
	}
	roadCol := []tak.Color{tak.White, tak.Black, tak.NoColor}[r.Intn(3)]
	if roadCol != tak.NoColor {
		y := size - 1 // a straight road along the top row, listed LAST by the lowest-bit iteration
		for x := 0; x < size; x++ {
			board[y][x] = tak.Square{tak.MakePiece(roadCol, tak.Flat)}
		}
	}
	for tries := 0; tries < 400; tries++ {
		col := tak.White
		if r.Intn(3) == 0 {
			col = tak.Black
		}
		x, y := r.Intn(size), r.Intn(size)
		x2, y2 := x+1, y
		if r.Intn(2) == 0 {
			x2, y2 = x, y+1
		}
		if x2 >= size || y2 >= size || occupied(x, y) || occupied(x2, y2) || touches(x, y, col) || touches(x2, y2, col) {
			continue
		}
		board[y][x] = tak.Square{tak.MakePiece(col, tak.Flat)}
		board[y2][x2] = tak.Square{tak.MakePiece(col, tak.Flat)}
	}
	cfg := tak.Config{Size: size, BlackWinsTies: r.Intn(3) == 0}
	fitReserves(r, &cfg, board)
	p, err := tak.FromSquares(cfg, board, 2+r.Intn(40))
	if err != nil {
		panic(err)
	}
	return p
}

func runC02(c *ctx) {
	for b := 0; b < 40*c.scale; b++ {
		completionCases(c, 3+b%6)
	}
	for b := 0; b < 60*c.scale; b++ {
		p := manyGroups(c.r, 6+b%3)
		a := p.Analysis()
		if len(a.WhiteGroups) > p.Size() || len(a.BlackGroups) > p.Size() {
			c.stat("boards_with_more_groups_than_size", 1)
		}
		emitC02(c, p, "many-groups")
		// and one move later (analysis recomputed into the same storage scheme)
		if legal := legalMoves(p); len(legal) > 0 {
			if q, err := p.Move(legal[c.r.Intn(len(legal))]); err == nil {
				emitC02(c, q, "many-groups")
			}
		}
	}
	if c.tier == "replay" {
		if p, err := decodeEnc(readReplay(c).Input); err == nil {
			emitC02(c, p, "replay")
		}
		return
	}
	r := c.r
	// HISTORIES: a position's verdict must stay what the rules say while its relatives come and go - a search-like walk
	// through a few reused buffers with moves AND null moves; after every step every position still alive (parents,
	// grand-parents, the results sitting in the other buffers) is judged again.  The CASE lines carry the verdict of that
	// moment, so the model comparison covers it as well.
	for g := 0; g < 24*c.scale; g++ {
		size := 3 + g%6
		ps, _ := randomGame(r, tak.Config{Size: size}, 6+r.Intn(40), []int{4, -1, 3}[r.Intn(3)], false)
		root := ps[len(ps)-1]
		if over, _ := root.GameOver(); over && len(ps) > 1 {
			root = ps[len(ps)-2]
		}
		bufs := []*tak.Position{tak.Alloc(size), tak.Alloc(size), tak.Alloc(size)}
		alive := []*tak.Position{root}
		inBuf := map[*tak.Position]*tak.Position{} // buffer -> the position it holds now
		cur := root
		for step := 0; step < 14; step++ {
			var m tak.Move
			if r.Intn(3) == 0 {
				m = tak.Move{Type: tak.Pass}
			} else {
				lm := legalMoves(cur)
				if len(lm) == 0 {
					break
				}
				m = lm[r.Intn(len(lm))]
			}
			buf := bufs[r.Intn(len(bufs))]
			if r.Intn(4) == 0 {
				buf = nil
			}
			if buf == cur {
				continue
			}
			q, err := cur.MovePreallocated(m, buf)
			if err != nil {
				continue
			}
			if buf != nil {
				// whatever lived in the buffer is gone
				old := inBuf[buf]
				for i, x := range alive {
					if x == old && old != nil {
						alive = append(alive[:i], alive[i+1:]...)
						break
					}
				}
				inBuf[buf] = q
			}
			alive = append(alive, q)
			for _, x := range alive {
				if x == buf && x != q {
					continue
				}
				emitC02(c, x, "history")
			}
			// continue from the new position, or back up to a relative that is still alive
			cur = q
			if over, _ := q.GameOver(); over || r.Intn(3) == 0 {
				cur = alive[r.Intn(len(alive))]
				if over, _ := cur.GameOver(); over {
					cur = root
				}
			}
		}
	}
	for b := 0; b < 120*c.scale; b++ {
		emitC02(c, snakeBoard(r, 3+b%6), "snake")
	}
	for g := 0; g < 60*c.scale; g++ {
		size := 3 + g%6
		cfg := randCfg(r, size)
		if r.Intn(3) == 0 { // small reserves: games end by exhaustion, possibly with capstones left
			cfg.Pieces = 2 + r.Intn(6)
			cfg.Capstones = r.Intn(3)
		}
		pol := []int{4, 4, -1, 3, 0}[r.Intn(5)]
		ps, _ := randomGame(r, cfg, 20+r.Intn(120), pol, r.Intn(6) == 0)
		for i, p := range ps {
			if i >= len(ps)-3 || r.Intn(4) == 0 {
				emitC02(c, p, "playout")
			}
		}
	}
	for b := 0; b < 400*c.scale; b++ {
		size := 3 + b%6
		emitC02(c, roadBoard(r, size), "roadboard")
	}
	for b := 0; b < 200*c.scale; b++ {
		size := 3 + b%6
		p, _, _ := constructedBoard(r, size, 6, 0.5+0.5*r.Float64())
		emitC02(c, p, "constructed")
	}
	// full boards and exhausted reserves
	for b := 0; b < 100*c.scale; b++ {
		size := 3 + b%6
		p, _, _ := constructedBoard(r, size, 3, 1.0)
		emitC02(c, p, "full")
	}
}

// emptySquares lists the empty squares of a position as (x, y)
func emptySquares(p *tak.Position) [][2]int {
	var out [][2]int
	for y := 0; y < p.Size(); y++ {
		for x := 0; x < p.Size(); x++ {
			if len(p.At(x, y)) == 0 {
				out = append(out, [2]int{x, y})
			}
		}
	}
	return out
}
