//go:build !verif_solve

package main

// Stand-in for c19_solve.go when the accessor to DFPNSolver.solve does not build against the repository's tree
// (the method was renamed or removed): the solver-instance family of C19 is skipped and recorded as such; the
// reused-solver streams of C06 still exercise the detector through the public API.
func c19SolverFamily(c *ctx) { c.stat("solver_instance_family_unavailable", 1) }

func c19SolverReplay(c *ctx, inp string) bool { return false }
