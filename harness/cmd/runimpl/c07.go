package main

// C07: the playtak bot's game record tracks the server under every interleaving.
//
// The implementation runs inside build/bot.test (the in-package schedule driver
// harness/overlay/bot_sched_test.go.txt, built by harness/build_c07.sh): the real PlayGame /
// ObserveGame against a scripted Client and a gated Bot.  This file generates the abstract schedules,
// runs the test binary on them, judges every trace with an oracle written from the property text
// (server history "as communicated" kept with the independent rules oracle of oracle_rules.go and an
// own parser of the wire notation), and prints
//   CASE <size colour accept instant gamestr> ; <ops> ; <event> ; <event> ... | <observation per event> ; ... ; <final record>
// events:  L <hex of the server line> | Z (connection closed) | A <move> <start ply> <ctx cancelled> | G
//          LA <hex> <move> <start ply> <ctx cancelled>   the thinker's answer landed in its channel WHILE the loop was
//                                                        handling that line (before the branch's moveCancel())
// The hex is the RAW text the loop received (game id canonicalised): the model classifies it itself (BotLine.classify).
// observation per event:  <sends, blanks as _, comma separated>^<0|1|P|S>^<#positions>^<moves>^<top position>
//                         ^<chat callbacks made: T:<who>:<msg> / C:<room>:<who>:<msg>, hex, comma separated, or ->^<g.times.mine>:<g.times.theirs> (ns)
//
// Because the 500 ms grace timer is real, a schedule whose trace fails the oracle or disagrees with
// the extracted model (build/modelrun, if present) is re-run three times before it counts.

import (
	"bufio"
	"bytes"
	"encoding/hex"
	"encoding/json"
	"fmt"
	"os"
	"os/exec"
	"path/filepath"
	"strconv"
	"strings"

	"github.com/nelhage/taktician/ptn"
	"github.com/nelhage/taktician/tak"
)

func init() { register("C07", runC07) }

type c07Event struct {
	Ev     string   `json:"ev"`
	Line   string   `json:"line"`
	Hex    string   `json:"hex"`
	Chat   []string `json:"chat"`
	Times  [2]int64 `json:"times"`
	Move   string   `json:"move"`
	Ply    int      `json:"ply"`
	TPS    string   `json:"tps"`
	Cancel bool     `json:"cancel"`
	Forced bool     `json:"forced"`
	During *struct {
		Move   string `json:"move"`
		Ply    int    `json:"ply"`
		TPS    string `json:"tps"`
		Cancel bool   `json:"cancel"`
	} `json:"during"`
	Sends []string `json:"sends"`
	Ret   string   `json:"ret"`
	Moves *string  `json:"moves"`
	Pos   []string `json:"pos"`
}

type c07Trace struct {
	ID      string     `json:"id"`
	Size    int        `json:"size"`
	Color   string     `json:"color"`
	Accept  bool       `json:"accept"`
	Instant bool       `json:"instant"`
	Ops     string     `json:"ops"`
	GameStr string     `json:"gamestr"`
	Events  []c07Event `json:"events"`
	Tainted bool       `json:"tainted"`
	Tries   int        `json:"tries"`
	Panic   string     `json:"panic"`
}

type c07Sched struct {
	size    int
	color   string // W B O
	accept  bool
	instant bool
	ops     []string
	kind    string
}

func (s *c07Sched) spec(id string) string {
	return fmt.Sprintf("%s %d %s %d %d %s", id, s.size, s.color, b2i(s.accept), b2i(s.instant), strings.Join(s.ops, " "))
}

func c07Root() string {
	exe, err := os.Executable()
	if err != nil {
		return ".."
	}
	exe, _ = filepath.EvalSymlinks(exe)
	return filepath.Dir(filepath.Dir(exe)) // <root>/build/runimpl -> <root>
}

func c07Build() error {
	if os.Getenv("VERIF_C07_NOBUILD") != "" {
		return nil
	}
	cmd := exec.Command("bash", filepath.Join(c07Root(), "harness", "build_c07.sh"))
	out, err := cmd.CombinedOutput()
	if err != nil {
		return fmt.Errorf("build_c07.sh: %v\n%s", err, out)
	}
	return nil
}

var c07Batch = 0

// c07Exec runs the schedules through the test binary; result i belongs to schedule i.
func c07Exec(scheds []*c07Sched, par int) ([]*c07Trace, error) {
	root := c07Root()
	dir := filepath.Join(root, "build", "c07")
	os.MkdirAll(dir, 0o755)
	c07Batch++
	in := filepath.Join(dir, fmt.Sprintf("sched-%d-%d.in", os.Getpid(), c07Batch))
	out := filepath.Join(dir, fmt.Sprintf("sched-%d-%d.out", os.Getpid(), c07Batch))
	defer os.Remove(in)
	defer os.Remove(out)
	var b bytes.Buffer
	for i, s := range scheds {
		b.WriteString(s.spec(strconv.Itoa(i)))
		b.WriteByte('\n')
	}
	if err := os.WriteFile(in, b.Bytes(), 0o644); err != nil {
		return nil, err
	}
	cmd := exec.Command(filepath.Join(root, "build", "bot.test"), "-test.run", "^TestVerifC07$", "-test.timeout", "3h")
	cmd.Env = append(os.Environ(), "VERIF_C07_IN="+in, "VERIF_C07_OUT="+out, "VERIF_C07_PAR="+strconv.Itoa(par))
	if o, err := cmd.CombinedOutput(); err != nil {
		return nil, fmt.Errorf("bot.test: %v\n%s", err, o)
	}
	f, err := os.Open(out)
	if err != nil {
		return nil, err
	}
	defer f.Close()
	res := make([]*c07Trace, len(scheds))
	sc := bufio.NewScanner(f)
	sc.Buffer(make([]byte, 1<<22), 1<<22)
	for sc.Scan() {
		var t c07Trace
		if err := json.Unmarshal(sc.Bytes(), &t); err != nil {
			return nil, err
		}
		i, _ := strconv.Atoi(t.ID)
		res[i] = &t
	}
	for i := range res {
		if res[i] == nil {
			return nil, fmt.Errorf("no trace for schedule %d", i)
		}
	}
	return res, nil
}

// ---------- the oracle (written from the property text; knows nothing of bot.go) ----------

var c07Pieces = map[int][2]int{3: {10, 0}, 4: {15, 0}, 5: {21, 1}, 6: {30, 1}, 7: {40, 2}, 8: {50, 2}}

func c07Start(n int) *aboard {
	a := &aboard{n: n, ws: c07Pieces[n][0], wc: c07Pieces[n][1], bs: c07Pieces[n][0], bc: c07Pieces[n][1]}
	a.sq = make([][]tak.Square, n)
	for y := range a.sq {
		a.sq[y] = make([]tak.Square, n)
	}
	return a
}

// the playtak wire notation, read from the protocol description: "P A1 [W|C]", "M A1 A3 1 2"
func c07ParseWire(s string) (tak.Move, bool) {
	w := strings.Split(s, " ")
	sq := func(t string) (int, int, bool) {
		if len(t) != 2 || t[0] < 'A' || t[0] > 'H' || t[1] < '1' || t[1] > '8' {
			return 0, 0, false
		}
		return int(t[0] - 'A'), int(t[1] - '1'), true
	}
	switch {
	case w[0] == "P" && (len(w) == 2 || len(w) == 3):
		x, y, ok := sq(w[1])
		if !ok {
			return tak.Move{}, false
		}
		m := tak.Move{X: int8(x), Y: int8(y), Type: tak.PlaceFlat}
		if len(w) == 3 {
			switch w[2] {
			case "W":
				m.Type = tak.PlaceStanding
			case "C":
				m.Type = tak.PlaceCapstone
			default:
				return tak.Move{}, false
			}
		}
		return m, true
	case w[0] == "M" && len(w) >= 4:
		x, y, ok := sq(w[1])
		ex, ey, ok2 := sq(w[2])
		if !ok || !ok2 {
			return tak.Move{}, false
		}
		m := tak.Move{X: int8(x), Y: int8(y)}
		dist := 0
		switch {
		case ey == y && ex > x:
			m.Type, dist = tak.SlideRight, ex-x
		case ey == y && ex < x:
			m.Type, dist = tak.SlideLeft, x-ex
		case ex == x && ey > y:
			m.Type, dist = tak.SlideUp, ey-y
		case ex == x && ey < y:
			m.Type, dist = tak.SlideDown, y-ey
		default:
			return tak.Move{}, false
		}
		if len(w)-3 != dist {
			return tak.Move{}, false
		}
		var word uint32
		for i := len(w) - 1; i >= 3; i-- {
			d, err := strconv.Atoi(w[i])
			if err != nil || d < 1 || d > 8 {
				return tak.Move{}, false
			}
			word = word<<4 | uint32(d)
		}
		m.Slides = tak.Slides(word)
		return m, true
	}
	return tak.Move{}, false
}

func c07ParseMove(s string) tak.Move {
	f := strings.Split(s, ":")
	if len(f) != 4 {
		return tak.Move{}
	}
	x, _ := strconv.Atoi(f[0])
	y, _ := strconv.Atoi(f[1])
	t, _ := strconv.Atoi(f[2])
	sl, _ := strconv.ParseUint(f[3], 10, 32)
	return tak.Move{X: int8(x), Y: int8(y), Type: tak.MoveType(t), Slides: tak.Slides(sl)}
}

func c07Board(tps string) *aboard {
	p, err := ptn.ParseTPS(tps)
	if err != nil {
		return nil
	}
	return absOf(p)
}

// c07Oracle evaluates the three clauses of the property on a trace.  "" = held.
// The server: it appends the move of every P/M line it sends; it performs an undo AT ONCE when the bot accepts one
// (the Undo line that tells the bot follows); it appends a move received from the bot iff that move is legal in its
// current position and it is the bot's turn there.  The bot's record is compared with the history as communicated
// (until the Undo line is delivered that is the history before the undo).
func c07Oracle(t *c07Trace) (class, did, want string) {
	srv := []*aboard{c07Start(t.Size)}
	var srvMoves []tak.Move
	var heldPos *aboard // the position / move taken back by an undo whose Undo line is still outstanding
	var heldMove tak.Move
	serverEnded := false
	var recMoves string
	var recPos []string
	for i, e := range t.Events {
		at := fmt.Sprintf("event %d (%s)", i, e.Ev)
		cur := srv[len(srv)-1]
		// --- the environment's part of the event
		switch e.Ev {
		case "L":
			m, ok := c07ParseWire(strings.TrimPrefix(e.Line, t.GameStr+" "))
			var nxt *aboard
			if ok {
				nxt = cur.rulesMove(m)
			}
			if nxt == nil || heldPos != nil {
				return "", "", "" // the harness's server sent an inconsistent line: outside the property
			}
			srv = append(srv, nxt)
			srvMoves = append(srvMoves, m)
		case "X":
			if heldPos == nil {
				return "", "", ""
			}
			heldPos = nil
		case "LI", "XX", "H":
			return "", "", "" // hostile line: the property assumes a server consistent with its history
		case "O", "Q", "Z":
			serverEnded = true
		}
		// the answer that became available to the loop during this event
		ansMove, ansPly, ansTPS, haveAns := e.Move, e.Ply, e.TPS, e.Ev == "A"
		if e.During != nil {
			ansMove, ansPly, ansTPS, haveAns = e.During.Move, e.During.Ply, e.During.TPS, true
		}
		// --- what the bot transmitted during the event
		for _, s := range e.Sends {
			body := strings.TrimPrefix(s, t.GameStr+" ")
			if body == s {
				return "sent-not-ai-answer", at + " sent " + s, "only lines of its own game"
			}
			if body == "RequestUndo" {
				if e.Ev != "U" || !t.Accept {
					return "sent-not-ai-answer", at + " sent " + s, "an undo is accepted only when requested and AcceptUndo() holds"
				}
				if heldPos == nil && len(srv) >= 2 { // the server takes the last move back now
					heldPos, heldMove = srv[len(srv)-1], srvMoves[len(srvMoves)-1]
					srv, srvMoves = srv[:len(srv)-1], srvMoves[:len(srvMoves)-1]
				}
				continue
			}
			m, ok := c07ParseWire(body)
			if !ok {
				return "sent-not-ai-answer", at + " sent " + s, "a well-formed move"
			}
			cur = srv[len(srv)-1]
			if !haveAns || encMove(c07ParseMove(ansMove)) != encMove(m) {
				return "sent-not-ai-answer", at + " sent " + s, "a move its AI returned in this event"
			}
			start := c07Board(ansTPS)
			if ansPly != cur.ply || start == nil || !start.equalBoard(cur) {
				return "stale-answer-sent", fmt.Sprintf("%s sent %s, computed for ply %d (%s)", at, s, ansPly, ansTPS),
					fmt.Sprintf("an answer computed for the server's current position, ply %d (%s)", cur.ply, c07EncBoard(cur))
			}
			botCol := tak.White
			if t.Color == "B" {
				botCol = tak.Black
			}
			if t.Color == "O" || cur.toMove() != botCol {
				return "sent-off-turn", at + " sent " + s + " at ply " + strconv.Itoa(cur.ply), "moves only on its own turn (colour " + t.Color + ")"
			}
			nxt := cur.rulesMove(m)
			if nxt == nil {
				return "sent-illegal", at + " sent " + s, "a move legal at " + c07EncBoard(cur)
			}
			srv = append(srv, nxt)
			srvMoves = append(srvMoves, m)
		}
		// --- the record
		if e.Moves != nil {
			recMoves, recPos = *e.Moves, e.Pos
		}
		if e.Ret != "P" {
			comm, commMoves := srv, srvMoves
			if heldPos != nil {
				comm = append(append([]*aboard{}, srv...), heldPos)
				commMoves = append(append([]tak.Move{}, srvMoves...), heldMove)
			}
			want := strings.TrimSuffix(encMoves(commMoves), "-")
			ok := recMoves == want && len(recPos) == len(comm)
			if ok {
				for k := range comm {
					b := c07Board(recPos[k])
					if b == nil || !b.equalBoard(comm[k]) {
						ok = false
					}
				}
			}
			if !ok {
				return "record-diverges", fmt.Sprintf("%s record moves=[%s] positions=%v", at, recMoves, recPos),
					fmt.Sprintf("server history as communicated moves=[%s] top=%s (%d positions)", want, c07EncBoard(comm[len(comm)-1]), len(comm))
			}
		}
		// --- the loop
		switch e.Ret {
		case "P":
			return "panic", at + " PlayGame panicked: " + t.Panic, "no crash on lines consistent with the server's history"
		case "S":
			return "loop-stuck", at + " no reaction within 2 s", "the loop keeps serving lines"
		case "1":
			if !serverEnded {
				return "loop-end-mismatch", at + " PlayGame returned", "the loop ends only when the server ends the game"
			}
		case "0":
			if serverEnded {
				return "loop-end-mismatch", at + " loop still running after the server ended the game", "the loop ends when the server ends the game"
			}
		}
		if serverEnded {
			break
		}
	}
	return "", "", ""
}

// ---------- CASE encoding ----------

func c07Under(s string) string { return strings.ReplaceAll(s, " ", "_") }

func c07Abs(tps string) string {
	p, err := ptn.ParseTPS(tps)
	if err != nil {
		return "BADTPS"
	}
	return encAbs(p)
}

func c07Case(s *c07Sched, t *c07Trace) (input, l1 string) {
	var in, out []string
	in = append(in, fmt.Sprintf("%d %s %d %d %s", t.Size, t.Color, b2i(t.Accept), b2i(t.Instant), hex.EncodeToString([]byte(t.GameStr))))
	in = append(in, strings.Join(s.ops, " "))
	var moves string
	var pos []string
	for _, e := range t.Events {
		switch e.Ev {
		case "A":
			in = append(in, fmt.Sprintf("A %s %d %d", e.Move, e.Ply, b2i(e.Cancel)))
		case "G":
			in = append(in, "G")
		case "Z":
			in = append(in, "Z")
		default:
			h := e.Hex // (JSON cannot carry invalid UTF-8: the driver also writes the line in hex)
			if h == "" {
				h = hex.EncodeToString([]byte(e.Line))
			}
			if e.During != nil {
				in = append(in, fmt.Sprintf("LA %s- %s %d %d", h, e.During.Move, e.During.Ply, b2i(e.During.Cancel)))
			} else {
				in = append(in, "L "+h+"-")
			}
		}
		if e.Moves != nil {
			moves, pos = *e.Moves, e.Pos
		}
		sends := make([]string, len(e.Sends))
		for i, x := range e.Sends {
			sends[i] = c07Under(x)
		}
		top := "-"
		if len(pos) > 0 {
			top = c07Abs(pos[len(pos)-1])
		}
		m := moves
		if m == "" {
			m = "-"
		}
		chat := "-"
		if len(e.Chat) > 0 {
			chat = strings.Join(e.Chat, ",")
		}
		out = append(out, fmt.Sprintf("%s^%s^%d^%s^%s^%s^%d:%d", strings.Join(sends, ","), e.Ret, len(pos), m, top, chat, e.Times[0], e.Times[1]))
	}
	all := make([]string, len(pos))
	for i, p := range pos {
		all[i] = c07Abs(p)
	}
	out = append(out, "F:"+strings.Join(all, "~"))
	return strings.Join(in, " ; "), strings.Join(out, " ; ")
}

// c07ModelMismatches pipes CASE lines through build/modelrun and returns the indices that mismatch at L1.
func c07ModelMismatches(lines []string) map[int]bool {
	res := map[int]bool{}
	exe := filepath.Join(c07Root(), "build", "modelrun-C07")
	if _, err := os.Stat(exe); err != nil || os.Getenv("VERIF_C07_NOMODEL") != "" {
		return res
	}
	// modelrun reports only the first 20 mismatches: feed it in chunks
	const chunk = 64
	for lo := 0; lo < len(lines); lo += chunk {
		hi := lo + chunk
		if hi > len(lines) {
			hi = len(lines)
		}
		cmd := exec.Command(exe, "C07", "fixed")
		cmd.Stdin = strings.NewReader(strings.Join(lines[lo:hi], "\n") + "\n")
		out, err := cmd.Output()
		if err != nil {
			return map[int]bool{} // model not runnable: the check itself reports that
		}
		for _, l := range strings.Split(string(out), "\n") {
			if strings.HasPrefix(l, "MISMATCH L1 line ") {
				f := strings.Fields(l)
				if n, err := strconv.Atoi(f[3]); err == nil {
					res[lo+n-1] = true
				}
			}
		}
	}
	return res
}

// ---------- schedules ----------

func c07Directed() []*c07Sched {
	var out []*c07Sched
	add := func(kind string, size int, color string, accept, instant bool, ops ...string) {
		var o []string
		for _, x := range ops {
			o = append(o, strings.Fields(x)...)
		}
		out = append(out, &c07Sched{size: size, color: color, accept: accept, instant: instant, ops: o, kind: kind})
	}
	mv := []string{"1", "3", "0", "5", "2", "7"} // which legal move the k-th ply takes
	for _, size := range []int{3, 4} {
		for _, col := range []string{"W", "B"} {
			// resume replay of every prefix, late answer released at every point of the replay
			for r := 0; r <= 5; r++ {
				for j := 0; j <= r; j++ {
					if size == 4 && (r+j)%2 == 1 {
						continue
					}
					var ops []string
					for k := 0; k < r; k++ {
						if k == j {
							ops = append(ops, "A:0")
						}
						ops = append(ops, "R:"+mv[k])
					}
					if j == r {
						ops = append(ops, "A:0")
					}
					ops = append(ops, "G A:1 A:0 L:2 A:0 T A:2 L:1 G A:0")
					add("resume", size, col, true, false, ops...)
				}
			}
			// SLOW resume replay: the replayed lines are spread over more than 500 ms in total while every gap stays far below
			// the grace period, so the grace timer must be measured from the LAST line of the burst: no thinker may be started
			// for an intermediate position
			// (the first thinker is released at once, so that a thinker started too early is not queued behind it; three
			// replayed lines 180 ms apart, then 235 ms of silence: 595 ms after the first line, 235 ms after the last; an
			// answer released THEN must find no live thinker)
			for _, tail := range []string{"A:1 R:5 R:2 G A:0 A:0 L:2 A:0 T A:2", "A:1 G A:0 L:2 A:0 T", "R:5 W:120 A:1 R:2 G A:0"} {
				add("slow-replay", size, col, true, false, "A:0 R:1 W:180 R:3 W:180 R:0 W:235 "+tail)
			}
			// undo at every ply, with the thinker released before the request, between request and undo, or after
			for p := 1; p <= 5; p++ {
				for late := 0; late < 3; late++ {
					if size == 4 && (p+late)%2 == 0 {
						continue
					}
					var ops []string
					for k := 0; k < p-1; k++ {
						ops = append(ops, "A:"+mv[k], "L:"+mv[k], "G")
					}
					ops = append(ops, "A:"+mv[p-1], "L:"+mv[p-1])
					switch late {
					case 0:
						ops = append(ops, "G A:0 U X")
					case 1:
						ops = append(ops, "G U A:0 X")
					case 2:
						ops = append(ops, "U X A:0 G")
					}
					ops = append(ops, "A:1 L:1 A:0 G A:0 AC:0 T A:3")
					add("undo", size, col, true, false, ops...)
				}
			}
		}
	}
	// the thinker's answer lands in its channel WHILE the loop is handling a line (after the line was taken, before the
	// branch's moveCancel()): the repaired loop must ignore it.  A "clean round" leaves exactly one live thinker blocked.
	round := func(k int) string { return "A:" + mv[k] + " L:" + mv[k] + " T AC:0" }
	for _, size := range []int{3, 4} {
		for _, col := range []string{"W", "B"} {
			for r := 0; r <= 3; r++ {
				var ops []string
				if col == "B" {
					ops = append(ops, "L:1 T AC:0")
				}
				for k := 0; k < r; k++ {
					ops = append(ops, round(k))
				}
				// now it is the bot's turn and its live thinker is blocked
				if !(col == "W" && r == 0) { // (no move to take back yet)
					add("during-undo", size, col, true, false, append(append([]string{}, ops...), "UA:1 A:0 G A:1 L:1 T AC:0 A:0 L:0 G A:0")...)
					add("during-undo", size, col, true, false, append(append([]string{}, ops...), "UA:0 C:0 T G A:0 L:2 G A:0 U A:0")...)
				}
				if size == 3 && r >= 1 && r <= 2 {
					// between the bot's acceptance and the Undo line: a Time line (no grace timer pending) and thinker returns
					add("undo-window", size, col, true, false, append(append([]string{}, ops...), "G U T AC:0 A:0 C:0 A:1 L:0 G A:0")...)
					add("undo-window", size, col, true, false, append(append([]string{}, ops...), "G UA:0 T T A:0 G A:1 L:1 G A:0")...)
				}
				add("during-move", size, col, true, false, append(append([]string{}, ops...), "RA:2:0 G A:0 L:1 T AC:0 A:0 L:0")...)
				add("during-move", size, col, true, false, append(append([]string{}, ops...), "RA:1:1 RA:0:0 T A:0 A:1 L:1 G A:0")...)
				// and on the opponent's turn (the channel is not listened to anyway)
				add("during-move", size, col, true, false, append(append([]string{}, ops...), "A:0 LA:1:0 UA:0 G A:0 L:0 T AC:0 UA:0 A:0")...)
			}
			// resume: the ply-0 thinker's answer lands during the j-th replayed line
			for r := 1; r <= 4; r++ {
				for j := 0; j < r; j++ {
					var ops []string
					for k := 0; k < r; k++ {
						if k == j {
							ops = append(ops, "RA:"+mv[k]+":0")
						} else {
							ops = append(ops, "R:"+mv[k])
						}
					}
					ops = append(ops, "G A:1 A:0 L:2 T AC:0 A:0 UA:0 A:0")
					add("during-resume", size, col, true, false, ops...)
				}
			}
		}
	}
	for _, col := range []string{"W", "B"} {
		// AIs that answer instantly
		add("instant", 3, col, true, true, "L:0 G L:1 G L:2 G L:0 U X G L:1 G")
		add("instant", 4, col, true, true, "R:0 R:1 R:2 G L:1 T L:2 G C:0 L:0 G Q")
		add("instant", 3, col, false, true, "L:3 T L:1 U L:2 G L:0 G L:0 G L:0 G L:0 G")
		// AIs that answer only after cancellation
		add("aftercancel", 3, col, true, false, "AC:0 L:0 AC:0 G AC:0 L:1 AC:1 U AC:0 X AC:0 A:0 L:0 AC:0 G A:0")
		add("aftercancel", 4, col, true, false, "R:0 AC:0 R:1 AC:0 R:2 AC:0 T AC:0 A:1 L:2 AC:0 G AC:0 A:0")
		// AIs that return an illegal move
		add("badai", 3, col, true, false, "AB AB A:0 L:0 AB G AB A:1 L:1 G AB AB A:0")
		// undo refused
		add("norefuse", 3, col, false, false, "A:0 L:0 U A:0 G U A:1 L:0 U G A:0")
		// ends with a thinker blocked / released / grace pending
		add("end", 3, col, true, false, "A:0 L:1 O")
		add("end", 3, col, true, false, "L:1 A:0 Q")
		add("end", 3, col, true, false, "R:0 R:1 Z")
		add("end", 4, col, true, false, "A:0 L:0 G A:0 L:0 U Z")
		add("end", 3, col, true, false, "Z")
		add("end", 3, col, true, false, "Q")
		// chat and unknown lines between everything
		add("chat", 3, col, true, false, "C:0 A:0 C:1 L:0 C:2 C:3 G C:4 A:0 C:5 C:6 L:1 C:7 T C:8 A:0 C:9 U C:10 X C:11 C:12 C:13 C:14 C:15 A:0")
		add("chat", 3, col, true, false, "A:0 C:16 C:17 L:0 C:18 G C:19 C:20 A:0 C:21 C:22 L:1 C:23 T C:24 A:0 C:25 C:26 U C:27 X C:18 A:0")
		add("chat", 3, col, true, true, "L:0 G C:18 L:0 C:16 G L:0 C:19 G C:17 L:0 G")
		// a game played to its end (3x3 fills up quickly)
		add("fullgame", 3, col, true, true, "L:0 G L:0 G L:0 G L:0 G L:0 G L:0 G L:0 G L:0 G L:0 G L:0 G")
		add("fullgame", 3, col, true, false, "A:0 L:0 G A:0 L:0 G A:0 L:0 G A:0 L:0 G A:0 L:0 G A:0 L:0 G A:0 L:0 G A:0 L:0 G A:0 L:0 G A:0 L:0 G A:0 O")
	}
	// observer mode
	add("observer", 3, "O", true, false, "L:0 L:1 A:0 G L:2 A:0 T L:0 U X L:1 G A:0 O")
	add("observer", 4, "O", true, false, "A:0 L:0 L:1 L:2 L:3 G A:0 C:0 L:1 Q")
	add("observer", 3, "O", false, true, "L:0 G L:1 L:2 T L:3 U G L:0 Z")
	add("observer", 3, "O", true, false, "L:0 L:0 L:0 L:0 L:0 L:0 L:0 L:0 L:0 L:0 L:0 G A:0 O")
	// near misses of our own lines, chat mentioning our game, the corner cases of the three chat patterns (all ignored by the
	// loop; the chat callbacks and their arguments are compared with the model), odd spellings of the clock fields
	for _, col := range []string{"W", "B"} {
		lo := c07NChatOld
		if col == "B" {
			lo += 2
		}
		for part := 0; part < 4; part++ {
			var ops []string
			game := strings.Fields("A:0 L:0 G A:1 L:1 T:1 A:0 U X A:2 L:0 G A:0 L:2 T A:1")
			for i := lo + part; i < c07NChat; i += 4 {
				ops = append(ops, "C:"+strconv.Itoa(i))
				if len(game) > 0 {
					ops, game = append(ops, game[0]), game[1:]
				}
			}
			add("nearmiss", 3, col, true, false, ops...)
		}
		add("clock", 3, col, true, false, "T:1 A:0 T:2 L:0 T:3 G T:4 T:5 A:1 L:1 T:6 A:0 T:7 L:0 T:8 T:9 G T:10 T:11 T:12 A:0 T:13 T:14 T:15")
	}
	add("clock", 4, "O", true, false, "T:4 L:0 T:5 L:1 T:9 G T:12 T:13 L:0 T:3 T:2")
	// hostile lines (index panics, P/M texts ParseServer rejects, protocol words behind "Tell", which the loop executes):
	// outside the property, compared with the model only
	for i := 0; i < c07NHostile; i++ {
		col := "W"
		if i >= 9 && i%2 == 1 {
			col = "B"
		}
		if col == "W" {
			add("hostile", 3, col, true, false, "A:0 L:0", "H:"+strconv.Itoa(i), "G A:0")
		} else {
			add("hostile", 3, col, true, false, "L:0 T A:0", "H:"+strconv.Itoa(i), "G A:0 L:0")
		}
	}
	add("hostile", 3, "O", true, false, "L:0 H:9")
	add("hostile", 3, "O", false, false, "L:0 L:1 H:31 H:1")
	add("hostile", 3, "B", true, false, "XX")
	add("hostile", 3, "W", true, false, "A:0 XX A:0 XX A:0")
	add("hostile", 3, "B", true, false, "L:0 LI")
	add("hostile", 4, "W", true, false, "LI")
	return out
}

// sizes of the driver's line tables vcChat / vcHostile / vcTimes (harness/overlay/bot_sched_test.go.txt)
const (
	c07NChatOld = 28
	c07NChat    = 78
	c07NHostile = 38
	c07NTimes   = 16
)

func c07Random(c *ctx, n int) []*c07Sched {
	var out []*c07Sched
	for i := 0; i < n; i++ {
		s := &c07Sched{size: 3 + c.r.Intn(2), color: []string{"W", "B", "W", "B", "O"}[c.r.Intn(5)], accept: c.r.Intn(5) != 0,
			instant: c.r.Intn(6) == 0, kind: "random"}
		resume := 0
		if c.r.Intn(3) == 0 {
			resume = 1 + c.r.Intn(5)
		}
		nops := 5 + c.r.Intn(12)
		for k := 0; k < nops; k++ {
			x := c.r.Intn(100)
			a := strconv.Itoa(c.r.Intn(12))
			switch {
			case k < resume && x < 50:
				s.ops = append(s.ops, "R:"+a)
			case k < resume && x < 70:
				s.ops = append(s.ops, "RA:"+a+":"+strconv.Itoa(c.r.Intn(12)))
			case x < 5:
				s.ops = append(s.ops, "LA:"+a+":"+strconv.Itoa(c.r.Intn(12)))
			case x < 10:
				s.ops = append(s.ops, "UA:"+a)
			case x < 28:
				s.ops = append(s.ops, "L:"+a)
			case x < 50:
				s.ops = append(s.ops, "A:"+a)
			case x < 56:
				s.ops = append(s.ops, "AC:"+a)
			case x < 59:
				s.ops = append(s.ops, "AB")
			case x < 70:
				s.ops = append(s.ops, "G")
			case x < 75:
				s.ops = append(s.ops, "T")
			case x < 77:
				s.ops = append(s.ops, "T:"+strconv.Itoa(c.r.Intn(c07NTimes)))
			case x < 85:
				s.ops = append(s.ops, "U")
			case x < 92:
				s.ops = append(s.ops, "X")
			case x < 97:
				s.ops = append(s.ops, "C:"+strconv.Itoa(c.r.Intn(c07NChat)))
			case x < 98:
				s.ops = append(s.ops, "O")
			case x < 99:
				s.ops = append(s.ops, "Q")
			default:
				s.ops = append(s.ops, "Z")
			}
		}
		out = append(out, s)
	}
	return out
}

// every ordering of {move line, AI return, grace expiry, Time, undo request, undo} of length n
func c07Exhaustive(size int, color string, alphabet []string, n int) []*c07Sched {
	var out []*c07Sched
	idx := make([]int, n)
	for {
		ops := make([]string, n)
		for i, k := range idx {
			ops[i] = alphabet[k]
		}
		out = append(out, &c07Sched{size: size, color: color, accept: true, ops: ops, kind: "exhaustive"})
		i := n - 1
		for ; i >= 0; i-- {
			idx[i]++
			if idx[i] < len(alphabet) {
				break
			}
			idx[i] = 0
		}
		if i < 0 {
			break
		}
	}
	return out
}

type c07Result struct {
	s     *c07Sched
	t     *c07Trace
	input string
	l1    string
	class string
	did   string
	want  string
}

func c07Judge(s *c07Sched, t *c07Trace) *c07Result {
	r := &c07Result{s: s, t: t}
	r.input, r.l1 = c07Case(s, t)
	r.class, r.did, r.want = c07Oracle(t)
	return r
}

func (r *c07Result) line() string { return "CASE " + r.input + " | " + r.l1 }

func runC07(c *ctx) {
	if err := c07Build(); err != nil {
		fmt.Fprintln(os.Stderr, err)
		c.w.Flush()
		os.Exit(3)
	}
	if c.tier == "replay" {
		c07Replay(c)
		return
	}
	scheds := c07Directed()
	par := 64
	if c.quick() {
		scheds = append(scheds, c07Random(c, 130)...)
	} else {
		par = 192
		scheds = append(scheds, c07Random(c, 1500)...)
		al := []string{"L:0", "LA:0:0", "A:0", "G", "T", "U", "UA:0"}
		ar := []string{"R:0", "RA:0:0", "A:0", "G", "T", "UA:0"}
		for _, col := range []string{"W", "B"} {
			scheds = append(scheds, c07Exhaustive(3, col, al, 6)...)
			scheds = append(scheds, c07Exhaustive(3, col, ar, 5)...)
		}
		scheds = append(scheds, c07Exhaustive(3, "O", []string{"L:0", "LA:0:0", "A:0", "G", "T", "U"}, 5)...)
		// the same orderings after two plies have been played (undo and late answers deeper in the game)
		for _, x := range c07Exhaustive(3, "W", al, 5) {
			x.ops = append([]string{"A:0", "L:0", "T", "AC:0"}, x.ops...)
			scheds = append(scheds, x)
		}
		for _, x := range c07Exhaustive(3, "B", al, 5) {
			x.ops = append([]string{"L:0", "T", "AC:0"}, x.ops...)
			scheds = append(scheds, x)
		}
	}
	if v := os.Getenv("VERIF_C07_PAR"); v != "" {
		par, _ = strconv.Atoi(v)
	}
	traces, err := c07Exec(scheds, par)
	if err != nil {
		fmt.Fprintln(os.Stderr, err)
		c.w.Flush()
		os.Exit(3)
	}
	res := make([]*c07Result, len(scheds))
	lines := make([]string, len(scheds))
	for i := range scheds {
		res[i] = c07Judge(scheds[i], traces[i])
		lines[i] = res[i].line()
	}
	mism := c07ModelMismatches(lines)
	// only reproducible failures count: re-run the suspicious schedules three times
	var again []int
	for i, r := range res {
		if r.class != "" || mism[i] || r.t.Tainted {
			again = append(again, i)
		}
	}
	c.stat("rerun_schedules", int64(len(again)))
	if len(again) > 0 {
		var rs []*c07Sched
		for _, i := range again {
			rs = append(rs, scheds[i], scheds[i], scheds[i])
		}
		rt, err := c07Exec(rs, 32)
		if err != nil {
			fmt.Fprintln(os.Stderr, err)
			c.w.Flush()
			os.Exit(3)
		}
		for k, i := range again {
			orig := res[i]
			var rr [3]*c07Result
			same, sameClass := 0, 0
			for j := 0; j < 3; j++ {
				rr[j] = c07Judge(scheds[i], rt[3*k+j])
				if rr[j].line() == orig.line() {
					same++
				}
				if rr[j].class == orig.class {
					sameClass++
				}
			}
			switch {
			case orig.class != "" && sameClass == 3:
				c.stat("reproduced_oracle_failures", 1)
			case orig.class != "":
				c.stat("flaky_oracle_failures", 1)
				c.printf("SAMPLE not reproducible: %s on %s\n", orig.class, scheds[i].spec("x"))
				for j := 0; j < 3; j++ {
					if rr[j].class == "" {
						res[i] = rr[j]
						break
					}
				}
			case same == 3:
				c.stat("reproduced_traces", 1)
			default:
				c.stat("flaky_traces", 1)
				for j := 0; j < 3; j++ {
					if rr[j].line() != orig.line() && rr[j].class == "" && !rr[j].t.Tainted {
						res[i] = rr[j]
						break
					}
				}
			}
		}
	}
	samples := map[string]int{}
	for _, r := range res {
		t := r.t
		c.stat("schedules", 1)
		c.stat("kind_"+r.s.kind, 1)
		c.stat(fmt.Sprintf("size_%d", t.Size), 1)
		c.stat("colour_"+t.Color, 1)
		if t.Tainted {
			c.stat("tainted", 1)
		}
		if t.Tries > 1 {
			c.stat("driver_retries", int64(t.Tries-1))
		}
		maxply := 0
		for _, e := range t.Events {
			c.stat("events", 1)
			c.stat("ev_"+e.Ev, 1)
			if e.Ev == "A" {
				if e.Cancel {
					c.stat("answers_cancelled_ctx", 1)
				} else {
					c.stat("answers_live_ctx", 1)
				}
			}
			if e.During != nil {
				k := "line"
				if e.Ev == "U" {
					k = "undo_request"
				}
				if e.During.Cancel {
					c.stat("answer_during_"+k+"_cancelled_ctx", 1)
				} else {
					c.stat("answer_during_"+k+"_live_ctx", 1)
				}
			}
			if e.Ev == "G" && e.Forced {
				c.stat("grace_forced", 1)
			}
			for _, s := range e.Sends {
				if strings.HasSuffix(s, "RequestUndo") {
					c.stat("sent_undo_acks", 1)
				} else {
					c.stat("sent_moves", 1)
				}
			}
			if e.Moves != nil && len(e.Pos)-1 > maxply {
				maxply = len(e.Pos) - 1
			}
			c.stat("ret_"+e.Ret, 1)
		}
		c.stat(fmt.Sprintf("maxply_%02d", maxply), 1)
		c.printf("%s\n", r.line())
		if r.class != "" {
			c.printf("ORACLE-FAIL %s | %s | %s | %s\n", r.class, r.input, r.did, r.want)
		}
		if samples[r.s.kind] < 1 && len(samples) < 6 {
			samples[r.s.kind]++
			c.printf("SAMPLE [%s] %s => %s\n", r.s.kind, r.s.spec("-"), r.l1)
		}
	}
}

// replay: the input field of the replay file starts with "<size> <colour> <accept> <instant> <gamestr hex> ; <ops> ;"
func c07Replay(c *ctx) {
	if len(c.args) < 1 {
		fmt.Fprintln(os.Stderr, "replay file missing")
		return
	}
	raw, err := os.ReadFile(c.args[0])
	if err != nil {
		fmt.Fprintln(os.Stderr, err)
		return
	}
	var rp struct {
		Input string `json:"input"`
	}
	json.Unmarshal(raw, &rp)
	parts := strings.Split(rp.Input, " ; ")
	if len(parts) < 2 {
		fmt.Fprintln(os.Stderr, "bad replay input")
		return
	}
	h := strings.Fields(parts[0])
	s := &c07Sched{kind: "replay", color: h[1], accept: h[2] == "1", instant: h[3] == "1", ops: strings.Fields(parts[1])}
	s.size, _ = strconv.Atoi(h[0])
	ts, err := c07Exec([]*c07Sched{s, s, s}, 3)
	if err != nil {
		fmt.Fprintln(os.Stderr, err)
		return
	}
	for _, t := range ts {
		r := c07Judge(s, t)
		c.printf("%s\n", r.line())
		if r.class != "" {
			c.printf("ORACLE-FAIL %s | %s | %s | %s\n", r.class, r.input, r.did, r.want)
		}
	}
}

func c07EncBoard(a *aboard) string {
	s := fmt.Sprintf("%d %d %d %d %d %d ", a.n, a.ws, a.wc, a.bs, a.bc, a.ply)
	for y := 0; y < a.n; y++ {
		for x := 0; x < a.n; x++ {
			if x+y > 0 {
				s += ","
			}
			s += encSquare(a.sq[y][x])
		}
	}
	return s
}
