// c16race: supporting evidence for the data-race clause of C16 (not a proof).  Built with `go build -race` by harness/build_c16.sh
// and run by `runimpl C16 thorough`: Analyze calls are cancelled from another goroutine at random times (as the playtak bot cancels
// its ponder search on almost every opponent move), on engines that are reused across calls.  The race detector aborts the process
// with exit status 66 and a report on stderr if it sees a data race.
package main

import (
	"context"
	"fmt"
	"math/rand"
	"os"
	"strconv"
	"time"

	"github.com/nelhage/taktician/ai"
	"github.com/nelhage/taktician/tak"
)

func main() {
	seed := int64(1)
	n := 40
	if len(os.Args) > 1 {
		seed, _ = strconv.ParseInt(os.Args[1], 10, 64)
	}
	if len(os.Args) > 2 {
		n, _ = strconv.Atoi(os.Args[2])
	}
	r := rand.New(rand.NewSource(seed))
	runs := 0
	for g := 0; g < n; g++ {
		size := 4 + r.Intn(2)
		cfg := ai.MinimaxConfig{Size: size, Depth: 4 + r.Intn(2), Seed: 1}
		switch r.Intn(3) {
		case 0:
			cfg.TableMem = -1
		case 1:
			cfg.TableMem = 1 << 16
		}
		if r.Intn(3) == 0 {
			cfg.MakePrecise()
		}
		eng := ai.NewMinimax(cfg)
		p := tak.New(tak.Config{Size: size})
		for ply := 0; ply < 12; ply++ {
			if over, _ := p.GameOver(); over {
				break
			}
			ctx, cancel := context.WithCancel(context.Background())
			delay := time.Duration(r.Intn(3000)) * time.Microsecond
			done := make(chan struct{})
			go func() {
				time.Sleep(delay)
				cancel()
				close(done)
			}()
			m := eng.GetMove(ctx, p)
			<-done
			cancel()
			runs++
			if m.Type == 0 { // nothing completed: take any legal move
				for _, mm := range p.AllMoves(nil) {
					if _, e := p.Move(mm); e == nil {
						m = mm
						break
					}
				}
			}
			q, err := p.Move(m)
			if err != nil {
				fmt.Printf("ILLEGAL move after cancellation: %v\n", err)
				os.Exit(3)
			}
			p = q
		}
	}
	fmt.Printf("RACE-RUN ok cancelled_searches=%d\n", runs)
}
