(* build4-symcfg: statements for Properties files I do not own (test-compiled with the Require lines below; every one prints
   "Closed under the global context").  The proofs are in coq/ImportCfg1.v and coq/ImportCfg6.v.

   For Properties/C08.v ("however produced": Import6.produced extended by FromSquares and symmetry images under ANY configuration):
   needs   Require Import TpsCfg SymmetryCfg ImportCfg1 ImportCfg6.   (Import6, Canon8, Import1 are imported there already) *)
From Coq Require Import NArith ZArith List Bool.
Require Import Rules Board Move GameOver Refine Preserve1 Canon8 Tps TpsCfg Symmetry SymmetryCfg Import1 Import6 ImportCfg1 ImportCfg6.
Require Import Generated.Consts.
Close Scope Z_scope. Close Scope N_scope.

Theorem C08_produced_cfg_ok : forall p, produced_cfg p -> pos_ok p.
Proof. exact produced_cfg_ok. Qed.
Print Assumptions C08_produced_cfg_ok.

(* Equal and Hash depend only on size, squares and side to move for positions produced by ANY mix of tak.New, FromSquares / the symmetry
   images under ANY configuration (piece counts, BlackWinsTies), ParseTPS, moves and Pass: the configuration is not looked at *)
Theorem C08_equal_hash_however_produced_cfg : forall p q, produced_cfg p -> produced_cfg q ->
  size p = size q -> same_at p q -> same_side p q ->
  equal p q = true /\ hash_of p = hash_of q /\ hash p = hash q.
Proof. exact equal_hash_however_produced_cfg. Qed.
Print Assumptions C08_equal_hash_however_produced_cfg.

Theorem C08_equal_sound_produced_cfg : forall p q, produced_cfg p -> produced_cfg q -> equal p q = true ->
  size p = size q /\ same_at p q /\ same_side p q.
Proof. exact equal_sound_produced_cfg. Qed.
Print Assumptions C08_equal_sound_produced_cfg.

Theorem C08_example_however_produced_cfg :
  let q0 := from_squares gen_basis 5%N ex_board5 13%Z in
  let q1 := from_squares_cfg gen_basis 5%N 7%N 3%N true ex_board5 13%Z in
  produced_cfg q0 /\ produced_cfg q1 /\ produced_cfg (image_cfg gen_basis 7%N 3%N q1 (SymCode1.csym 5 6)) /\ q0 <> q1 /\
  equal q0 q1 = true /\ hash_of q0 = hash_of q1.
Proof. exact ex_however_produced_cfg. Qed.
Print Assumptions C08_example_however_produced_cfg.

(* For Properties/C01.v / C10.v (the import theorem from_squares_wf without the default-configuration restriction); the same statement is
   exported as C14_cfg_from_squares_wf in Properties/C14.v *)
Theorem C10_from_squares_cfg_wf : forall n stones caps bwt board mv, fit_board n board ->
  let q := from_squares_cfg gen_basis (N.of_nat n) stones caps bwt board mv in
  pos_ok q /\ size q = N.of_nat n /\ Move.move q = mv /\ Move.black_wins_ties q = bwt /\
  sq (abs q) = map (map piece_of) (concat board) /\
  (whiteStones q, whiteCaps q, blackStones q, blackCaps q) = cfg_reserves n stones caps (pieces_of board) /\
  (counts_fit_cfg n stones caps board -> abs q = cfg_apos n stones caps bwt board mv).
Proof. exact from_squares_cfg_wf. Qed.
Print Assumptions C10_from_squares_cfg_wf.
