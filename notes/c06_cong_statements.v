(* C06 statements of worker prove3-cong, in Properties form (test-compiled against /verif/coq as a stand-alone file).
   To merge into coq/Properties/C06.v: add the Require line's new modules (PnCong1 PnCong2 PnCong3 PnCong4 [DfpnRep*], Refine
   Reach1 Alloc Preserve1) and paste the blocks; the two `_partial` statements of block 4 can stay as the conditional forms.

   Block 4 without `_partial`.  The hypothesis equal_congruent (positions that Position.Equal identifies have the same
   history-free value) is false for arbitrary records (Position.Equal does not compare reserves, tie-break flag or ply
   counter) but holds between the positions of one game, PnCong3.cinv c b:
       C01's invariant pos_ok; at most 64 pieces in the game; reserve + pieces on the board = c for each of the four
       reserves; black_wins_ties = b; 0 <= move, and move < 2 exactly when fewer than 2 pieces have left the reserves.
   cinv is preserved by every accepted move and holds for every replay from tak.New with at most 64 pieces (all
   configurations of sizes 3..6 with the default counts, any custom configuration up to 64 pieces). *)
From Coq Require Import NArith ZArith List Bool.
Require Import Board Move Refine GameOver Preserve1 Reach1 Alloc AndOr AndOrS Pn PnRun PnFacts PnRunFacts PnCong1 PnCong2 PnCong3 PnCong4.
Require Import Generated.Consts.
Import ListNotations.
Open Scope N_scope.

(* 4a. the invariant: preserved by Position.Move, established by tak.New *)
Theorem C06_cinv_step : forall c b p m p', cinv c b p -> mv p m = Ok p' -> cinv c b p'.
Proof. exact cinv_step. Qed.
Print Assumptions C06_cinv_step.

Theorem C06_reachable_cinv : forall sz bwt stones caps ms p, 3 <= sz <= 8 -> 2 * (stones + caps) <= 64 ->
  replay (new_pos sz bwt stones caps) ms = Ok p -> cinv (stones, caps, stones, caps) bwt p.
Proof. exact reachable_cinv. Qed.
Print Assumptions C06_reachable_cinv.

(* 4b. equal_congruent between the positions of one game (any attacker) *)
Theorem C06_equal_congruent : forall c b aw n q p, cinv c b q -> cinv c b p -> pos_equal q p = true ->
  wn position (succs gen_basis) (terminal aw) (attp aw) n q = wn position (succs gen_basis) (terminal aw) (attp aw) n p.
Proof. exact equal_congruent_cinv. Qed.
Print Assumptions C06_equal_congruent.

(* 4b'. what makes it true: records that differ only in a ply counter of the same parity on the same side of the opening
   (PnCong1.sim) are indistinguishable for Move, GameOver and AllMoves - any basis, no invariant *)
Theorem C06_sim_wn : forall basis aw n q p, sim q p ->
  wn position (succs basis) (terminal aw) (attp aw) n q = wn position (succs basis) (terminal aw) (attp aw) n p.
Proof. exact sim_wn. Qed.
Print Assumptions C06_sim_wn.

(* 4c. truth under the repetition rule = attractor, for the positions of a game *)
Theorem C06_truth_equiv_game : forall c b aw k p, cinv c b p ->
  (Wb position pos_equal (succs gen_basis) (terminal aw) (attp aw) k [] p <->
   wn position (succs gen_basis) (terminal aw) (attp aw) k p = true).
Proof. exact truth_equiv_cinv. Qed.
Print Assumptions C06_truth_equiv_game.

(* 4d. the two verdicts of Prover.Prove (PnRun.pn_run) against the attractor, roots satisfying the invariant *)
Theorem C06_pn_proven_rules : forall c b iters dfuel maxnodes preserve maxdepth (p : position) root st mv why,
  cinv c b p ->
  pn_run iters dfuel maxnodes preserve maxdepth p = (root, st, 1, mv, why) ->
  exists k, Wb position pos_equal (succs gen_basis) (terminal (to_move_white p)) (attp (to_move_white p)) k [] p.
Proof. exact pn_run_proven_rules. Qed.
Print Assumptions C06_pn_proven_rules.

Theorem C06_pn_disproven_attractor : forall c b iters dfuel maxnodes preserve maxdepth (p : position) root st mv why,
  cinv c b p -> (0 <= maxdepth)%Z ->
  pn_run iters dfuel maxnodes preserve maxdepth p = (root, st, 2, mv, why) ->
  wn position (succs gen_basis) (terminal (to_move_white p)) (attp (to_move_white p)) (Z.to_nat (eff_maxdepth maxdepth)) p = false.
Proof. exact pn_run_disproven_attractor. Qed.
Print Assumptions C06_pn_disproven_attractor.

(* 4e. the same for roots that are positions of real games: anything replayed from tak.New *)
Theorem C06_pn_proven_rules_reachable :
  forall sz bwt stones caps ms iters dfuel maxnodes preserve maxdepth (p : position) root st mv why,
  3 <= sz <= 8 -> 2 * (stones + caps) <= 64 -> replay (new_pos sz bwt stones caps) ms = Ok p ->
  pn_run iters dfuel maxnodes preserve maxdepth p = (root, st, 1, mv, why) ->
  exists k, Wb position pos_equal (succs gen_basis) (terminal (to_move_white p)) (attp (to_move_white p)) k [] p.
Proof. exact pn_run_proven_rules_reachable. Qed.
Print Assumptions C06_pn_proven_rules_reachable.

Theorem C06_pn_disproven_attractor_reachable :
  forall sz bwt stones caps ms iters dfuel maxnodes preserve maxdepth (p : position) root st mv why,
  3 <= sz <= 8 -> 2 * (stones + caps) <= 64 -> replay (new_pos sz bwt stones caps) ms = Ok p -> (0 <= maxdepth)%Z ->
  pn_run iters dfuel maxnodes preserve maxdepth p = (root, st, 2, mv, why) ->
  wn position (succs gen_basis) (terminal (to_move_white p)) (attp (to_move_white p)) (Z.to_nat (eff_maxdepth maxdepth)) p = false.
Proof. exact pn_run_disproven_attractor_reachable. Qed.
Print Assumptions C06_pn_disproven_attractor_reachable.

(* the general-configuration forms over prove_pn (any pcfg) are PnCong4.pn_proven_rules_cinv / pn_disproven_attractor_cinv;
   non-vacuity: PnCong4.ex_proven_rules, ex_disproven_attractor (the roots of PnRunFacts' examples are replays from tak.New). *)
