(* C06 statements of worker prove3-cong, in Properties form (test-compiled against /verif/coq as a stand-alone file).
   To merge into coq/Properties/C06.v: add the Require line's new modules (PnCong1..5, DfpnRep1, DfpnRep5, DfpnRep6, Refine Reach1 Alloc Preserve1) and paste the blocks; the two `_partial` statements of block 4 can stay as the conditional forms.

   Block 4 without `_partial`.  The hypothesis equal_congruent (positions that Position.Equal identifies have the same
   history-free value) is false for arbitrary records (Position.Equal does not compare reserves, tie-break flag or ply
   counter) but holds between the positions of one game, PnCong3.cinv c b:
       C01's invariant pos_ok; at most 64 pieces in the game; reserve + pieces on the board = c for each of the four
       reserves; black_wins_ties = b; 0 <= move, and move < 2 exactly when fewer than 2 pieces have left the reserves.
   cinv is preserved by every accepted move and holds for every replay from tak.New with at most 64 pieces (all
   configurations of sizes 3..6 with the default counts, any custom configuration up to 64 pieces). *)
From Coq Require Import NArith ZArith List Bool.
Require Import Board Move Refine GameOver Eval Search Preserve1 Reach1 Alloc AndOr AndOrS Pn PnRun PnFacts PnRunFacts Dfpn DfpnFacts DfpnFactsL
  PnCong1 PnCong2 PnCong3 PnCong4 PnCong5 DfpnRep1 DfpnRep5 DfpnRep6.
Require Import Generated.Consts.
Import ListNotations.
Open Scope N_scope.

(* 4a. the invariant: preserved by Position.Move, established by tak.New *)
Theorem C06_cinv_step : forall c b p m p', cinv c b p -> mv p m = Ok p' -> cinv c b p'.
Proof. exact cinv_step. Qed.
Print Assumptions C06_cinv_step.

Theorem C06_reachable_cinv : forall sz bwt stones caps ms p, 3 <= sz <= 8 -> 2 * (stones + caps) <= 64 ->
  replay (new_pos sz bwt stones caps) ms = Ok p -> cinv (stones, caps, stones, caps) bwt p.
Proof. exact reachable_cinv. Qed.
Print Assumptions C06_reachable_cinv.

(* 4b. equal_congruent between the positions of one game (any attacker) *)
Theorem C06_equal_congruent : forall c b aw n q p, cinv c b q -> cinv c b p -> pos_equal q p = true ->
  wn position (succs gen_basis) (terminal aw) (attp aw) n q = wn position (succs gen_basis) (terminal aw) (attp aw) n p.
Proof. exact equal_congruent_cinv. Qed.
Print Assumptions C06_equal_congruent.

(* 4b'. what makes it true: records that differ only in a ply counter of the same parity on the same side of the opening
   (PnCong1.sim) are indistinguishable for Move, GameOver and AllMoves - any basis, no invariant *)
Theorem C06_sim_wn : forall basis aw n q p, sim q p ->
  wn position (succs basis) (terminal aw) (attp aw) n q = wn position (succs basis) (terminal aw) (attp aw) n p.
Proof. exact sim_wn. Qed.
Print Assumptions C06_sim_wn.

(* 4c. truth under the repetition rule = attractor, for the positions of a game *)
Theorem C06_truth_equiv_game : forall c b aw k p, cinv c b p ->
  (Wb position pos_equal (succs gen_basis) (terminal aw) (attp aw) k [] p <->
   wn position (succs gen_basis) (terminal aw) (attp aw) k p = true).
Proof. exact truth_equiv_cinv. Qed.
Print Assumptions C06_truth_equiv_game.

(* 4d. the two verdicts of Prover.Prove (PnRun.pn_run) against the attractor, roots satisfying the invariant *)
Theorem C06_pn_proven_rules : forall c b iters dfuel maxnodes preserve maxdepth (p : position) root st mv why,
  cinv c b p ->
  pn_run iters dfuel maxnodes preserve maxdepth p = (root, st, 1, mv, why) ->
  exists k, Wb position pos_equal (succs gen_basis) (terminal (to_move_white p)) (attp (to_move_white p)) k [] p.
Proof. exact pn_run_proven_rules. Qed.
Print Assumptions C06_pn_proven_rules.

Theorem C06_pn_disproven_attractor : forall c b iters dfuel maxnodes preserve maxdepth (p : position) root st mv why,
  cinv c b p -> (0 <= maxdepth)%Z ->
  pn_run iters dfuel maxnodes preserve maxdepth p = (root, st, 2, mv, why) ->
  wn position (succs gen_basis) (terminal (to_move_white p)) (attp (to_move_white p)) (Z.to_nat (eff_maxdepth maxdepth)) p = false.
Proof. exact pn_run_disproven_attractor. Qed.
Print Assumptions C06_pn_disproven_attractor.

(* 4e. the same for roots that are positions of real games: anything replayed from tak.New *)
Theorem C06_pn_proven_rules_reachable :
  forall sz bwt stones caps ms iters dfuel maxnodes preserve maxdepth (p : position) root st mv why,
  3 <= sz <= 8 -> 2 * (stones + caps) <= 64 -> replay (new_pos sz bwt stones caps) ms = Ok p ->
  pn_run iters dfuel maxnodes preserve maxdepth p = (root, st, 1, mv, why) ->
  exists k, Wb position pos_equal (succs gen_basis) (terminal (to_move_white p)) (attp (to_move_white p)) k [] p.
Proof. exact pn_run_proven_rules_reachable. Qed.
Print Assumptions C06_pn_proven_rules_reachable.

Theorem C06_pn_disproven_attractor_reachable :
  forall sz bwt stones caps ms iters dfuel maxnodes preserve maxdepth (p : position) root st mv why,
  3 <= sz <= 8 -> 2 * (stones + caps) <= 64 -> replay (new_pos sz bwt stones caps) ms = Ok p -> (0 <= maxdepth)%Z ->
  pn_run iters dfuel maxnodes preserve maxdepth p = (root, st, 2, mv, why) ->
  wn position (succs gen_basis) (terminal (to_move_white p)) (attp (to_move_white p)) (Z.to_nat (eff_maxdepth maxdepth)) p = false.
Proof. exact pn_run_disproven_attractor_reachable. Qed.
Print Assumptions C06_pn_disproven_attractor_reachable.

(* the general-configuration forms over prove_pn (any pcfg) are PnCong4.pn_proven_rules_cinv / pn_disproven_attractor_cinv;
   non-vacuity: PnCong4.ex_proven_rules, ex_disproven_attractor (the roots of PnRunFacts' examples are replays from tak.New). *)


(* ===================== Block 6: DFPN `disproven` for runs WITH threefold-repetition events =====================
   Full statement - REFUTED on the real solver for a REUSED solver (notes/prove3_cong_report.txt: 3x3, 3 stones + capstone,
   second Prove call answers `disproven` for a position won in 12 plies); for a fresh solver open, false for the algorithm
   on abstract game graphs (notes/c06_ghi/d4.txt):
       dfpn p = (Disproven, m) -> ~ Wins att [] p          for every run, whatever the counters say.
   Proved, in addition to 6 (repetition counter 0): a run that took no bound from the transposition table (DFPNStats.Hits
   unchanged - compared with the solver on every run like Repetition) reports `disproven` only where the attacker has no
   forced win, WITH repetitions, for ANY contents of the table (so also for a reused solver, any earlier attacker).
   The hypothesis on hashes is the depth-indexed no-collision (6c shows that it and the form used in 5/6 follow from
   "equal hash implies Position.Equal" on positions of one game).  Together: the only runs whose `disproven` is not
   covered have BOTH Repetition > 0 and Hits > 0 - the graph-history interaction proper.
   MISSING for the full statement: bounds stored while an ancestor on the stack was still open are conditional on that
   ancestor (DfpnRep1.CL); nothing in the solver invalidates them when the ancestor leaves the stack. *)
Theorem C06_dfpn_disproven_sound_nohit_partial :
  forall (basis : list N) (aw : bool) (Sp : position -> Prop),
    (forall p m q, Sp p -> terminal aw p = None -> In m (all_moves p) -> dmv basis p m = Ok q -> Sp q) ->
    (forall p, Sp p -> size p <= 8) ->
    (forall p q, Sp p -> Sp q -> hash_of p = hash_of q ->
       forall n, wn position (succs basis) (terminal aw) (attp aw) n p = wn position (succs basis) (terminal aw) (attp aw) n q) ->
    (forall p, Sp p -> terminal aw p = None -> all_moves p <> []) ->
    (forall p, Sp p -> terminal aw p = None -> solve p <> None -> attp aw p = false ->
       exists q, In q (succs basis p) /\ terminal aw q = Some false) ->
    forall lfuel dfuel entries g s e w,
      Sp g -> prove basis aw lfuel dfuel entries g = (s, e, w) -> ds_hits (dst s) = 0 -> result_of aw g e = 2 ->
      forall n, wn position (succs basis) (terminal aw) (attp aw) n g = false.
Proof. exact dfpn_disproven_sound_nohit. Qed.
Print Assumptions C06_dfpn_disproven_sound_nohit_partial.

(* 6b. the same for Prove() on a solver in any state (table and killers from earlier calls; the caller resets the stack) *)
Theorem C06_dfpn_disproven_sound_nohit_from_partial :
  forall (basis : list N) (aw : bool) (Sp : position -> Prop),
    (forall p m q, Sp p -> terminal aw p = None -> In m (all_moves p) -> dmv basis p m = Ok q -> Sp q) ->
    (forall p, Sp p -> size p <= 8) ->
    (forall p q, Sp p -> Sp q -> hash_of p = hash_of q ->
       forall n, wn position (succs basis) (terminal aw) (attp aw) n p = wn position (succs basis) (terminal aw) (attp aw) n q) ->
    (forall p, Sp p -> terminal aw p = None -> all_moves p <> []) ->
    (forall p, Sp p -> terminal aw p = None -> solve p <> None -> attp aw p = false ->
       exists q, In q (succs basis p) /\ terminal aw q = Some false) ->
    forall lfuel dfuel s0 g s e w,
      Sp g -> dstack s0 = [] -> prove_from basis aw lfuel dfuel s0 g = (s, e, w) ->
      ds_hits (dst s) = ds_hits (dst s0) -> result_of aw g e = 2 ->
      forall n, wn position (succs basis) (terminal aw) (attp aw) n g = false.
Proof. exact dfpn_disproven_sound_nohit_from. Qed.
Print Assumptions C06_dfpn_disproven_sound_nohit_from_partial.

(* 6b'. the same for the model of a reused solver, Dfpn.prove_on (what the C06 driver runs for solver sequences) *)
Theorem C06_dfpn_disproven_sound_nohit_on_partial :
  forall (basis : list N) (Sp : position -> Prop) (cfg_attacker : N) (sv sv' : dsolver) (g : position) lfuel dfuel s e w r,
    let aw := match cfg_attacker with 1 => true | 2 => false | _ => to_move_white g end in
    (forall p m q, Sp p -> terminal aw p = None -> In m (all_moves p) -> dmv basis p m = Ok q -> Sp q) ->
    (forall p, Sp p -> size p <= 8) ->
    (forall p q, Sp p -> Sp q -> hash_of p = hash_of q ->
       forall n, wn position (succs basis) (terminal aw) (attp aw) n p = wn position (succs basis) (terminal aw) (attp aw) n q) ->
    (forall p, Sp p -> terminal aw p = None -> all_moves p <> []) ->
    (forall p, Sp p -> terminal aw p = None -> solve p <> None -> attp aw p = false ->
       exists q, In q (succs basis p) /\ terminal aw q = Some false) ->
    Sp g -> prove_on basis lfuel dfuel cfg_attacker sv g = (sv', (s, e, w, r)) -> ds_hits (dst s) = 0 -> r = 2 ->
    forall n, wn position (succs basis) (terminal aw) (attp aw) n g = false.
Proof. exact dfpn_disproven_sound_nohit_on. Qed.
Print Assumptions C06_dfpn_disproven_sound_nohit_on_partial.

(* 6b''. the safe envelope of reuse: a call on a solver whose table holds only unconditional entries (DfpnFactsL.table_okL;
   true of a fresh table) that meets no repetition answers `disproven` soundly AND leaves such a table - so a reused solver is
   sound as long as no call so far has met a repetition (the refuting sequences have Repetition = 6 in their first call) *)
Theorem C06_dfpn_disproven_sound_norep_from_partial :
  forall (basis : list N) (aw : bool) (Sp : position -> Prop),
    (forall p m q, Sp p -> terminal aw p = None -> In m (all_moves p) -> dmv basis p m = Ok q -> Sp q) ->
    (forall p, Sp p -> size p <= 8) ->
    (forall p q, Sp p -> Sp q -> hash_of p = hash_of q ->
       (W basis aw p <-> W basis aw q) /\ to_move_white p = to_move_white q /\ terminal aw p = terminal aw q) ->
    (forall p, Sp p -> hash_of p <> 0) ->
    (forall p, Sp p -> terminal aw p = None -> all_moves p <> []) ->
    (forall p, Sp p -> terminal aw p = None -> solve p <> None -> attp aw p = false ->
       exists q, In q (succs basis p) /\ terminal aw q = Some false) ->
    forall lfuel dfuel s0 g s e w,
      Sp g -> table_okL basis aw Sp s0 -> prove_from basis aw lfuel dfuel s0 g = (s, e, w) -> ds_rep (dst s) = ds_rep (dst s0) ->
      table_okL basis aw Sp s /\
      (result_of aw g e = 2 -> forall n, wn position (succs basis) (terminal aw) (attp aw) n g = false).
Proof. exact dfpn_disproven_sound_norep_from. Qed.
Print Assumptions C06_dfpn_disproven_sound_norep_from_partial.

(* 6c. NoCollisionOn Sp (both forms) from "equal hash implies Position.Equal" for positions of one game *)
Theorem C06_nocollision_from_equal :
  forall c b aw (Sp : position -> Prop),
  (forall p, Sp p -> cinv c b p) ->
  (forall p q, Sp p -> Sp q -> hash_of p = hash_of q -> pos_equal p q = true) ->
  (forall p q, Sp p -> Sp q -> hash_of p = hash_of q ->
     (W gen_basis aw p <-> W gen_basis aw q) /\ to_move_white p = to_move_white q /\ terminal aw p = terminal aw q) /\
  (forall p q, Sp p -> Sp q -> hash_of p = hash_of q ->
     forall n, wn position (succs gen_basis) (terminal aw) (attp aw) n p = wn position (succs gen_basis) (terminal aw) (attp aw) n q).
Proof. exact nocollision_from_equal. Qed.
Print Assumptions C06_nocollision_from_equal.

(* non-vacuity: DfpnRep2.dfpn_disproven_sound_nohit_applies (the enumerated one-stone game) and, with the position sets by
   representatives of DfpnRep3, DfpnRep4.dfpn_proven_sound_cyclic / dfpn_disproven_sound_nohit_cyclic: a game with slide
   cycles (3x3, stone + capstone per side, 657 classes up to the ply counter), actual runs of the model. *)
