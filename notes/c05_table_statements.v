(* c05_table_statements.v - statements of worker prove3-table in Properties form (test-compiled against coq/SearchTable*.v with
   `coqc -R /verif/coq TV`), to be merged into coq/Properties/C05.v (C05_* names) and coq/Properties/C16.v (C16_* names).
   Proofs: coq/SearchTable1.v (classification W/L, table invariant, stores, probe), SearchTable2.v (zwSearch/pvSearch with a table),
   SearchTable3.v (Analyze, engine histories), SearchTable4.v (hypotheses discharged for the instantiated model), SearchTable5.v
   (executable classification, touched sets by enumeration), SearchTableEx.v (computed example), SearchTableThms.v (summary + header
   comment explaining every definition used below).

   Needed imports (add to the Require lines of the Properties files):
     Require Import SearchLegal2 SearchTable1 SearchTable2 SearchTable3 SearchTable4 SearchTable5 SearchTableThms SearchTableEx.

   Header text for C05.v, replacing "tt_valid_preserved / win_sound_complete (the table clause)   not proved ...":
     tt_valid_preserved / win_sound_complete (the table clause)   PROVED for the engine model Search.v with MakePrecise options, a table
        of any size and content, sort on/off, both evaluators of the check, every call cancelled anywhere or never, on a fresh engine or
        after ANY history of such calls (C05_table_win_sound_complete; abstract form C05_table_win_sound_complete_abstract; invariant
        C05_table_valid_preserved; per-search form C05_table_search_verdict).  Hypotheses left: the set U of touched positions with
        NoCollision (touch_set: equal Position.Hash => same forced-result classification, the form DfpnFacts.S_hash uses), positions of
        at most 64 pieces satisfying C01's invariant, ply + 40 <= max_terminal_ply, configured depth < 40 (model fuel).
   Header text for C16.v, replacing "cancel_preserves_engine ... NOT proved":
     cancel_preserves_engine   PROVED (C16_cancel_preserves_engine, abstract: C16_cancel_preserves_engine_abstract) under the hypotheses of
        C05's table clause: the state left by a call cancelled inside ANY leaf evaluation satisfies the table invariant and SJ again,
        and every later call on it (cancelled or not) reports right forced-result verdicts. *)
From Coq Require Import NArith ZArith List Bool.
Require Import Board Move GameOver Eval EvalSpec Search NegamaxSpec SearchGen SearchExact SearchInst SearchC SearchLegal2 SearchNeg2 SearchNeg5.
Require Import SearchTable1 SearchTable2 SearchTable3 SearchTable4 SearchTable5 SearchTableThms SearchTableEx.
Require Import Generated.Consts.
Import ListNotations.
Open Scope Z_scope.

(* ---------------- C05 ---------------- *)

(* The table clause on the instantiated model.  engine_inst U s: s is a fresh engine (any table size) or was left by any sequence of
   Analyze calls (precise options, either built-in evaluator, any cancellation point, positions satisfying ask_ok).  Whatever such a
   call reports with a depth d > 0 obeys verdict_ok:  v > WinThreshold -> a forced win exists;  v < -WinThreshold -> a forced loss
   exists;  a forced win within d plies -> v > WinThreshold;  a forced loss within d plies -> v < -WinThreshold. *)
Theorem C05_table_win_sound_complete : forall U, touch_set U ->
  forall s cfg k p sk pv v d acc c, engine_inst U s -> precise cfg -> builtin_eval cfg -> ask_ok cfg U p ->
  analyze_cancel gen_basis cfg k s p = (sk, (pv, v, d, acc, c)) -> 0 < d -> verdict_ok gen_basis p v d.
Proof. exact table_win_sound_complete_inst. Qed.
Print Assumptions C05_table_win_sound_complete.

(* the same for any hash basis, any evaluator obeying eval_facts and any position sets obeying table_facts *)
Theorem C05_table_win_sound_complete_abstract : forall basis Pos, table_facts basis Pos ->
  forall s cfg k p sk pv v d acc c, engine basis Pos s -> precise cfg -> eval_facts cfg Pos -> call_ok cfg Pos p ->
  analyze_cancel basis cfg k s p = (sk, (pv, v, d, acc, c)) -> 0 < d -> verdict_ok basis p v d.
Proof. exact table_win_sound_complete. Qed.
Print Assumptions C05_table_win_sound_complete_abstract.

(* tt_valid_preserved: every state an engine can reach satisfies SJ and the table invariant *)
Theorem C05_table_valid_preserved : forall basis Pos, table_facts basis Pos ->
  forall s, engine basis Pos s -> SJ s /\ tt_valid basis (Pos 0%nat) s.
Proof. exact table_valid_preserved. Qed.
Print Assumptions C05_table_valid_preserved.

(* one zwSearch / pvSearch call at any node: the state afterwards satisfies the invariant (also when cut short) and, unless the flag was
   set, the value is right about forced results for the window it was asked with (tv_ok, vals_ok) *)
Theorem C05_table_search_verdict : forall basis cfg k Pos, precise cfg -> table_facts basis Pos -> eval_facts cfg Pos ->
  forall f d, (d < f)%nat -> tv_ok basis k Pos d (srch false basis cfg k f).
Proof. exact table_search_verdict. Qed.
Print Assumptions C05_table_search_verdict.

(* the specification side is executable *)
Theorem C05_table_spec_decidable : forall basis n p, (wb basis n p = true <-> W basis n p) /\ (lb basis n p = true <-> L basis n p).
Proof. exact table_spec_decidable. Qed.
Print Assumptions C05_table_spec_decidable.

(* a touched set by enumeration: the tree of depth D below a root, when no two of its positions share a hash *)
Theorem C05_table_touch_levels : forall root D, coll_free (lev root D) = true -> touch_set (Ulev root D).
Proof. exact table_touch_levels. Qed.
Print Assumptions C05_table_touch_levels.

(* Non-vacuity, computed on the instantiated model: rootw = 3x3 after a2 a1 b2 c3 (White wins by force in exactly three plies), rootb =
   rootw after b1; one engine with a 64-entry table; call 1 (depth 3, rootw) cancelled inside the 30th leaf evaluation, call 2 (depth 3,
   rootw) and call 3 (depth 2, rootb) uninterrupted on the states left before.  All hypotheses hold (touched set: the 3917 positions
   within three plies of rootw, pairwise different hashes), the theorems apply, and their conclusions agree with wb / lb. *)
Theorem C05_table_example :
  touch_set Uex /\ ask_ok cfg3t Uex rootw /\ ask_ok cfg2t Uex rootb /\
  verdict_ok gen_basis rootw (r_value (snd run2)) (r_depth (snd run2)) /\ WinThreshold < r_value (snd run2) /\
  (exists n, W gen_basis n rootw) /\ wb gen_basis 3 rootw = true /\
  verdict_ok gen_basis rootb (r_value (snd run3)) (r_depth (snd run3)) /\ r_value (snd run3) < - WinThreshold /\
  (exists n, L gen_basis n rootb) /\ lb gen_basis 2 rootb = true /\
  SJ (fst run3) /\ tt_valid gen_basis (PosT Uex 0%nat) (fst run3).
Proof. exact table_theorems_apply. Qed.
Print Assumptions C05_table_example.

Theorem C05_table_example_runs :
  (r_value (snd run1) = 660 /\ r_depth (snd run1) = 1 /\ r_canceled (snd run1) = true) /\
  (r_value (snd run2) = 805307244 /\ r_depth (snd run2) = 3 /\ r_canceled (snd run2) = false) /\
  (r_value (snd run3) = -805307244 /\ r_depth (snd run3) = 2 /\ r_canceled (snd run3) = false) /\
  hd move0 (r_pv (snd run2)) = {| mX := 1; mY := 0; mT := 2; mS := 0 |}.
Proof. exact runs_obs. Qed.
Print Assumptions C05_table_example_runs.

Theorem C05_table_example_class :
  wb gen_basis 3 rootw = true /\ wb gen_basis 2 rootw = false /\ lb gen_basis 2 rootb = true /\ lb gen_basis 1 rootb = false.
Proof. exact rootw_class. Qed.
Print Assumptions C05_table_example_class.

(* ---------------- C16 ---------------- *)

(* cancel_preserves_engine on the instantiated model: the state left by a call cancelled inside ANY leaf evaluation (k = 0: never) is an
   engine state again - SJ and the table invariant hold - and every later call on it reports right verdicts *)
Theorem C16_cancel_preserves_engine : forall U, touch_set U ->
  forall s cfg k p sk r, engine_inst U s -> precise cfg -> builtin_eval cfg -> ask_ok cfg U p ->
  analyze_cancel gen_basis cfg k s p = (sk, r) ->
  engine_inst U sk /\ SJ sk /\ tt_valid gen_basis (PosT U 0%nat) sk /\
  forall cfg' k' p' sk' pv v d acc c, precise cfg' -> builtin_eval cfg' -> ask_ok cfg' U p' ->
    analyze_cancel gen_basis cfg' k' sk p' = (sk', (pv, v, d, acc, c)) -> 0 < d -> verdict_ok gen_basis p' v d.
Proof. exact table_cancel_preserves_engine_inst. Qed.
Print Assumptions C16_cancel_preserves_engine.

Theorem C16_cancel_preserves_engine_abstract : forall basis Pos, table_facts basis Pos ->
  forall s cfg k p sk r, engine basis Pos s -> precise cfg -> eval_facts cfg Pos -> call_ok cfg Pos p ->
  analyze_cancel basis cfg k s p = (sk, r) ->
  engine basis Pos sk /\ SJ sk /\ tt_valid basis (Pos 0%nat) sk /\
  forall cfg' k' p' sk' pv v d acc c, precise cfg' -> eval_facts cfg' Pos -> call_ok cfg' Pos p' ->
    analyze_cancel basis cfg' k' sk p' = (sk', (pv, v, d, acc, c)) -> 0 < d -> verdict_ok basis p' v d.
Proof. exact table_cancel_preserves_engine. Qed.
Print Assumptions C16_cancel_preserves_engine_abstract.
