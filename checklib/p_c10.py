PROP = dict(
    model_args=[],
    trivial=lambda inp, out: False,
    rule='F cases: positions with default piece counts - sampled positions of random playouts (all sizes, wall/capstone- and stack-heavy '
         'policies) and constructed boards that fit the default reserves (stacks up to 12 high, walls and capstones on stacks, both capstones '
         'of a colour on 7x7/8x8, empty runs of every length): FormatTPS, parse back, Equal both ways, Hash, four reserves, ply and side. '
         'S cases: canonical strings (FormatTPS output re-parsed and re-formatted) and a malformed stream (structure-aware mutations, '
         'ragged rows, huge numbers, edge cases). distinct = distinct case strings',
    assumptions=['default piece counts (ParseTPS always assumes them)'],
)
MANIFEST = dict(
    text="Coq theorem cell_roundtrip: the text of one square parses back to exactly that square, for every well-formed square of any height. "
         "The models of FormatTPS / ParseTPS / FromSquares / Equal / Hash are run against the implementation on every generated position and "
         "string (texts, parsed positions bit for bit, reserves, hash), and a Go oracle checks the round-trip clauses of the property directly.",
    ref='5.10', technique='Coq proof (square-level round trip; row/board layers pending) + model/implementation differential + round-trip oracle',
    note="Trusted: Coq kernel, extraction, transcription of ptn/tps.go and tak.FromSquares (validated by execution). Full tps_format_parse / tps_parse_format theorems not yet proved (partial).")
