PROP = dict(
    model_args=[],
    trivial=lambda inp, out: False,
    rule='CONCURRENT family: FormatTPS and ParseTPS from 6 goroutines at once on the positions of the run (mixed sizes) (~9 000 calls), each answer compared with the sequential one; F cases: positions with default piece counts - sampled positions of random playouts (all sizes, wall/capstone- and stack-heavy '
         'policies) and constructed boards that fit the default reserves (stacks up to 12 high, walls and capstones on stacks, both capstones '
         'of a colour on 7x7/8x8, empty runs of every length): FormatTPS, parse back, Equal both ways, Hash, four reserves, ply and side. '
         'S cases: canonical strings (FormatTPS output re-parsed and re-formatted) and a malformed stream (structure-aware mutations, '
         'ragged rows, huge numbers, edge cases). Client lines: reachable positions of random games handed to tei.Player.TEIGetMove (one tei.Client for 1-3 games, the same '
         'board and side to move again at later move numbers, boards of earlier games again) - the `position tps` line the engine process received is parsed back and compared '
         'with the position (Equal both ways, hash, reserves, side, move number; class client-line-roundtrip); a quarter of them are also F cases. distinct = distinct case strings',
    assumptions=['default piece counts (ParseTPS always assumes them)'],
)
MANIFEST = dict(
    text="Coq theorems (no admits) over the code-shaped models of ptn/tps.go and tak.FromSquares: "
         "tps_format_parse - for every position value of size 3..8 with 0 <= move (only the uint8/uint64 ranges of Height/Stacks assumed) "
         "ParseTPS accepts FormatTPS's text and returns a position with the same squares (Position.At), ply, side to move, the from-scratch "
         "hash, and reserves = default counts minus the pieces on the board; tps_format_parse_equal - on canonically represented positions "
         "whose reserves match the board the result is the position itself with black_wins_ties cleared (Equal both ways, same Hash, "
         "reserves, side, ply); format_render - FormatTPS is the TPS grammar rendering of the squares; tps_parse_format - every canonical "
         "string (rendering of a 3..8 board, 0 <= ply < 2^63) parses and re-formats to itself; layers: square, row (maximal runs x/x2..x9), "
         "board (rows top first), Atoi/%d, move-number arithmetic. A concrete 5x5 position (7-high stack under a capstone, wall, lone "
         "capstone) satisfies every hypothesis. "
         "The models of FormatTPS / ParseTPS / FromSquares / Equal / Hash are run against the implementation on every generated position and "
         "string (texts, parsed positions bit for bit, reserves, hash), and a Go oracle checks the round-trip clauses of the property directly.",
    ref='5.10', technique='Coq proof (both round-trip directions, all layers) + model/implementation differential + round-trip oracle',
    note="Trusted: Coq kernel, extraction, transcription of ptn/tps.go and tak.FromSquares (validated by execution). "
         "Reachable positions: tps_round_trip_reachable / reserves_match_reachable prove that every position replayed from tak.New with default "
         "counts satisfies the hypotheses (canonical representation via the C01 invariant; the rules conserve reserve + pieces on the board), "
         "under the C01 side condition that no stack on the way exceeds the 64 bits of the stack word (vacuous on 3x3..6x6). "
         "Negative ply is excluded (FormatTPS/ParseTPS do not round-trip it); black_wins_ties is not part of TPS and comes back false.")
