PROP = dict(
    model_args=[],
    # trivial = the constant-comparison cases; everything else evaluates a position
    trivial=lambda inp, out: inp.startswith('weights') or inp.startswith('thresholds'),
    rule='positions x weight set: sampled and final positions of long random playouts (sizes 3..8, six policies, games of up to 700 plies, '
         'default and custom reserves), constructed extreme-material boards (full boards of flats, tall stacks everywhere with captives of one '
         'colour, stacks at the 64-piece limit, many edge groups with gaps = many threats, many capstones and walls under custom '
         'configurations, many small groups), random constructed boards, finished games (roads, double roads, full boards, exhausted '
         'reserves; ply numbers up to 800), the best position of each hill-climbing run on the real evaluator, and the HISTORY family: ONE evaluator instance (ai.MakeEvaluator(size,nil), MinimaxAI.Evaluate, and the leaf evaluator inside 1- and 2-ply Analyze) used on sequences of positions with identical top bitboards that differ in reserves (exhausted or not), buried stones and side to move -- constructed variants and the natural pair (place the last stone / slide the top of an own stack onto the same square) -- each value judged by the range oracle, compared with a fresh instance (class evaluator-history-dependent) and with the model; the line reported by Analyze from the parents is replayed against the C18 corollary; 7 of 8 cases use the '
         'built-in weights of the size (judged by the oracle), 1 of 8 a random weight vector (model tie only). '
         'non-trivial = a position case; distinct = distinct (position, weights) strings',
    assumptions=['reserves of a configuration fit the byte fields: Pieces + Capstones <= 255 (GameOver adds them in a byte)',
                 'stack heights <= 64 in generated positions (documented representation limit); the bound theorem needs no such limit',
                 'terminal scores: ply number <= 2 684 354 (Terminal_Plies = -100 per ply would otherwise eat the margin)'],
)
MANIFEST = dict(
    text="Coq theorems over the transcription of ai/evaluate.go: for EVERY weight vector and every position value of the Go types (any 64-bit "
         "words, any uint8 heights; no well-formedness) with the game not over, |evaluate| <= bound(w), a closed-form sum of |weight| x maximal "
         "feature count; bound(w) < WinThreshold for each regenerated built-in weight set (recomputed by coqc on every run); a finished game "
         "scores 0 for a draw and beyond the threshold with the winner's sign otherwise, for ply numbers up to 2 684 354. The model is run "
         "against ai.MakeEvaluator(size,nil), custom weight vectors and ai.EvaluateWinner with exact int64 comparison; a Go oracle (rules-based "
         "game end, DFS roads) judges every value of the implementation; hill climbing on the real evaluator searches for a counterexample.",
    ref='5.18', technique='Coq proof (feature-count bound, numeric side condition recomputed from regenerated weights) + model/implementation differential + range oracle + hill climbing',
    note="Trusted: Coq kernel, extraction, transcription of ai/evaluate.go (validated by execution), generators.")
