import json,sys
sys.path.insert(0,'/verif/checklib')
import props as md
NOTES=('Machine-checked proof in Coq 8.16.1 over code-shaped models; models tied to /repo by (a) regenerated constants (coq/Generated) and (b) extracted model vs implementation differential on every run. See DESIGN.md.')
props=[json.loads(l) for l in open('/verif/properties.jsonl')]
checks=[]
NOT_YET={}
for p in props:
    pid=p['id']
    if pid not in md.MANIFESTS: continue
    c=md.MANIFESTS[pid]
    checks.append(dict(property_id=pid, quick_cmd='./check %s quick'%pid, thorough_cmd='./check %s thorough'%pid,
      evidence_file='/verif/evidence/%s.json'%pid, replay_cmd_template='./check %s --replay {path}'%pid, engine='coq-refinement',
      level_claimed=dict(category='proof', text=c['text'], design_ref=c['ref']), level_note=c['note'], technique=c['technique']))
na=[dict(property_id=p['id'], reason=NOT_YET.get(p['id'],'check not built yet in this session; planned per DESIGN.md section 5')) for p in props if p['id'] not in md.MANIFESTS]
m=dict(version=1, setup_cmd='bash ./setup.sh',
  hooks=dict(guard='verif', enable='no source hooks: accessors to unexported state are added at build time with `go build -overlay` from /verif/harness/overlay (nothing is written into /repo)',
             baseline_off_cmd='bash /verif/baseline.sh', source_commits=[], add_only=True),
  engines=[dict(name='coq-refinement', path='/verif/coq', serves_properties=sorted(md.MANIFESTS), kind_free_text='Coq 8.16.1 theorems about hand-written code-shaped Gallina models + extracted-model-vs-implementation correspondence + independent Go oracles')],
  checks=checks, notes=NOTES, not_applicable=na)
json.dump(m,open('/verif/MANIFEST.json','w'),indent=1)
print(len(checks),'claimed',len(na),'not yet')
