EXTRACT_DEPS = ['SearchInst.vo']

PROP = dict(
    model_args=['fixed'],
    cases_per_shard=8,
    # trivial = a single depth-1 call (no pruning, no table reuse can matter)
    trivial=lambda inp, out: inp.split(';')[1].split()[1] == '1' and inp.count('@') == 1,
    rule='one case = one engine and the whole history of Analyze/AnalyzeAll calls made on it. Positions: live positions of random '
         'playouts on 3x3..5x5 (road-racing and other policies, full and reduced reserves, both tie-break settings), biased to the last '
         'plies before the end so that forced results are near. Clause 1: no table, MakePrecise, sort on/off, symmetry de-duplication '
         'on/off, winner-only and default evaluator, 1-3 calls per engine, AnalyzeAll - half of the AnalyzeAll calls cancelled inside the k-th leaf evaluation, k inside the leaves of Analyze itself, during the second pass or after the call (oracle: value exact, every listed first move attains it - class analyze-all-lists-unsearched-move -, the whole set when not reported as cancelled, with NoSort a prefix of the uninterrupted call limited to the reported depth). Clause 2: tables of 2 entries up to the 100 MB '
         'default, histories of 1-5 (thorough 8) calls over neighbouring positions of one game incl. repeats and calls cancelled inside '
         'the k-th leaf evaluation. Every case is judged by the exhaustive-negamax / forced-result oracle; the cases whose configuration '
         'is deterministic for the model (NoSort, no de-duplication, table <= 4096 entries) are also replayed by the extracted model. '
         'non-trivial = deeper than one ply or more than one call; distinct = distinct (configuration, history) strings',
    assumptions=['no deadline, MaxEvals = 0 (the branching-factor cut-offs of Analyze are not exercised)',
                 'no 64-bit hash collision among the positions of one search',
                 'clause 2 is checked for the value-preserving (MakePrecise) options'],
)

MANIFEST = dict(
    text="Coq: pvs_correct (abstract PVS with zero-window scouts and re-search = negamax window trichotomy, any tree, any depth); "
         "analyze_precise_exact: the code-shaped engine model Search.v (frames, history/response hints, state-dependent move generator, "
         "iterative deepening) with MakePrecise and no table reports the exhaustive negamax value and a first move attaining it, on fresh "
         "engines and on engines left by any history of earlier calls, for a call cancelled at any point or never (a cancelled call "
         "reports its deepest completed iteration). For EVERY board size and every game of at most 64 pieces (the standard sets of 3x3..6x6) and both evaluators of the check "
         "(EvaluateWinner, built-in weights) no hypothesis about the rules engine or the evaluator is left: closure of the searched "
         "positions under moves (C01), completeness of AllMoves for hint moves (C03), a live position has a legal move (C04, C02), "
         "|eval| <= MaxEval (C18) are discharged (C05_analyze_precise_exact_64, _game64); for larger games the "
         "theorem holds under the explicit side condition `within` (the searched tree stays inside C01's 64-piece stack limit; "
         "the model's loops over the move generator take the node's own number of generated moves as fuel - Search.gfuel, proved sufficient - so no bound on it is assumed). Computed examples: Analyze next to exhaustive negamax on live 3x3 "
         "positions, incl. a reused engine and a cancelled call. "
         "analyze_all_exact (SearchAll1-4.v): in the same setting the REPAIRED AnalyzeAll (model Search.analyze_all_cancel; fix: AnalyzeAll stops listing "
         "lines once the search is cancelled) reports Analyze's line first and then, as first moves, a PREFIX - the whole when the call is not reported "
         "as cancelled - of filter (not Equal to pv[0], accepted, child value = the reported value) over AllMoves in the generator's "
         "order (AllMoves order with NoSort or at depth 1, otherwise the history-table order = a permutation): for EVERY cancellation point every "
         "listed first move attains the value and no two are Equal; not reported as cancelled => every entry of AllMoves - and every raw move value - "
         "that attains it is listed up to Move.Equal (C05_analyze_all_exact_64, _sets_cancel_64, _sets_64, _complete_raw). The code before the repair "
         "(switch `pinned` of the model) satisfies this only while the flag is unset and listed losing moves afterwards "
         "(C05_analyze_all_cancelled_refuted_pinned, reproduced on the unrepaired engine; C05_analyze_all_cancelled_fixed for the repaired model). "
         "The model (transposition table, move generator "
         "with hint de-duplication, history/response heuristics, iterative deepening, cancellation) is replayed against MinimaxAI.Analyze/"
         "AnalyzeAll on every history of calls (PV, value, depth at L1; the 17 Stats counters at L2), and an independent exhaustive "
         "negamax / forced-result solver judges value, first move, AnalyzeAll's set and the win/loss verdicts on fresh and reused engines.",
    ref='5.5', technique='Coq proof (PVS = negamax) + extracted-model/implementation differential over call histories + exhaustive negamax oracle',
    note="Trusted: Coq kernel, extraction, transcription of ai/minimax.go and ai/moves.go (validated by execution), generators. "
         "The TABLE CLAUSE is proved (C05_table_win_sound_complete, C05_table_valid_preserved, C05_table_search_verdict; SearchTable1-5.v): MakePrecise options with a table of any size and content, fresh engine or any history of calls cancelled anywhere or never: a report beyond the win threshold is a real forced win/loss and a forced win/loss within the reported depth is reported (invariant over the W/L classification, not over exact values: Position.Hash ignores the ply counter that terminal scores depend on), under an explicit NoCollision hypothesis on the touched positions (touch_set), at most 64 pieces, ply + configured depth <= max_terminal_ply, configured depth < 40 (model fuel; the Go code cannot run deeper than ai.maxDepth = 15 without an index panic). For the positions of ONE game (replayed from tak.New) the hash hypothesis is the syntactic one, equal Position.Hash on the touched set implies Position.Equal (C05_table_win_sound_complete_game; W/L invariant under the ply-counter relation sim of PnCong1: C05_table_sim_classification; SearchTable6.v). The soundness half - a reported win or loss is a real forced one - is proved for EVERY configuration without null move (slide reduction, multi-cut, any table, any history, no depth bound: C05_table_sound_any_config; SearchTable7-8.v); completeness is false there by design, and null-move configurations stay with the oracle. Symmetry de-duplication (Cfg.DedupSymmetry) is MODELLED (SearchDedup.v: pvSearch's per-node cache of symmetry-class hashes, active below ply 4; Search.v unchanged and provably equal to the new model with the option off, C05_dedup_off) and such configurations run as model cases of the check (L1 PV/value/depth, L2 counters); dedup_value_preserving is PROVED for precise options without a table and an evaluator invariant under the eight images (EvaluateWinner proved to be one; C05_dedup_value_preserving_winner/_sym, via C05_dedup_nmx_image: exhaustive negamax is invariant under the images), under dedup_nocollision on the touched set. FINDING: the built-in evaluator MakeEvaluator(size, nil) is not invariant under the board symmetries (C05_dedup_default_eval_not_symmetric; same numbers from the real code, notes/finding_default_eval_asymmetric.txt: CountThreats depends on the enumeration order of the groups), so the property's 'symmetric evaluator' excludes it. The soundness half of the table clause is proved for the dedup-capable model too (C05_dedup_table_sound_any_config: any configuration without null move, any table, any history; the forced-result classification is invariant under the images, C05_dedup_cls_image). The remaining theorems are about the option OFF. AnalyzeAll's set is proved for every cancellation point (soundness always, completeness when not reported as cancelled). Found and repaired through this property: a cancelled AnalyzeAll listed moves whose searches were abandoned (known_findings: analyze-all-lists-unsearched-move). "
         "The model's loops over the move generator are bounded by the node's own number of generated moves (a first version used a constant fuel of 700, which made the model - not the Go code - stop early on positions with more moves; found by the C17 low-reserve family and removed).")
