PROP = dict(
    model_args=[],
    trivial=lambda inp, out: False,
    rule='positions: sampled positions of random playouts (all sizes, custom small reserves so that stone reserves run out while '
         'capstones remain, opening plies always included) and constructed boards (stacks taller than the carry limit on edges and '
         'corners); per position the complete AllMoves list is compared as a set and in order, checked for duplicates and off-board '
         'endpoints, against the complete legal move set computed by the rules oracle (all placements, all slide compositions), and a '
         'dense raw-move grid for accepted-but-not-generated moves; distinct = distinct positions',
    assumptions=['positions are well-formed (produced by Move / FromSquares)'],
)
MANIFEST = dict(
    text="Coq theorems: the slides table is a duplicate-free listing of exactly the drop compositions within each carry limit, and every "
         "admissible slide shape from a mover-owned stack is in all_moves (allmoves_has_slide). The model of AllMoves is compared with the "
         "implementation's list (as a set and in order) on every generated position, and an independent rules oracle enumerates the complete "
         "legal move set and checks completeness, duplicates, on-board endpoints and accepted-implies-generated directly on the implementation.",
    ref='5.3', technique='Coq proof (slides table, slide completeness) + model/implementation differential + exhaustive rules-oracle enumeration per position',
    note="Trusted: Coq kernel, extraction, transcription of AllMoves/calculateSlides (validated by execution), generators. Placement completeness / NoDup / on-board theorems not yet proved (partial).")
