PROP = dict(
    model_args=[],
    trivial=lambda inp, out: False,
    rule='CONCURRENT family: the positions of the run (mixed sizes) are handed to AllMoves from 6 goroutines at once, ~9 000 calls per quick run, every list judged by the same criteria; positions: sampled positions of random playouts (all sizes, custom small reserves so that stone reserves run out while '
         'capstones remain, opening plies always included) and constructed boards (stacks taller than the carry limit on edges and '
         'corners); per position the complete AllMoves list is compared as a set and in order, checked for duplicates and off-board '
         'endpoints, against the complete legal move set computed by the rules oracle (all placements, all slide compositions), and a '
         'dense raw-move grid for accepted-but-not-generated moves; distinct = distinct positions',
    assumptions=['positions are well-formed (produced by Move / FromSquares)'],
)
MANIFEST = dict(
    text="Coq theorems over the code-shaped model of AllMoves/calculateSlides (Properties/C03.v, all closed under the global context): "
         "completeness - every non-pass raw move value that the model of the repaired MovePreallocated accepts in a well-formed position is "
         "Move.Equal to a generated move (C03_allmoves_complete); no two generated moves are Equal and every generated move starts and ends "
         "on the board, both for every position value whatsoever (C03_allmoves_nodup, C03_allmoves_on_board, C03_allmoves_dest for the int8 "
         "Dest()); the exact content of the list (C03_all_moves_spec: placements on empty squares by opening rule and capstone availability, "
         "slides = drop compositions within min(height,size) and the distance to the edge; built on C03_slides_table_spec); and, with C01, "
         "C03_legal_set_exact: the list filtered by MovePreallocated's verdict contains every rules-legal raw move exactly once up to Equal and "
         "nothing else - stated for the exact C01 invariant as well (C03_legal_set_exact_pos_ok: every position whose stacks fit the 64-piece stack "
         "words) and for every position of a game replayed from tak.New with at most 64 pieces (C03_legal_set_exact_game: no hypothesis on the position). "
         "Non-vacuity on a concrete 5x5 mid-game position (78 generated, 69 legal) and a refutation of completeness for the "
         "pinned tree without the bounds check. The model of AllMoves is compared with the implementation's list (as a set and in order) on "
         "every generated position, and an independent rules oracle enumerates the complete legal move set and checks completeness, duplicates, "
         "on-board endpoints and accepted-implies-generated directly on the implementation.",
    ref='5.3', technique='Coq proof (completeness, NoDup, on-board, exact legal set via C01) + model/implementation differential + exhaustive rules-oracle enumeration per position',
    note="Trusted: Coq kernel, extraction, transcription of AllMoves/calculateSlides and MovePreallocated (validated by execution), generators. "
         "All theorems of DESIGN 5.3 are proved; legal_set_exact inherits the hypotheses of C01 (size 3..8, board_ok, byte-range reserves, "
         "tall_ok = height + size <= 64 per square). Pass is outside the claim (the model returns Err for it).")
