EXTRACT_DEPS = ['SearchInst.vo']

PROP = dict(
    model_args=['fixed'],
    cases_per_shard=4,
    trivial=lambda inp, out: False,
    rule='positions: live positions of random playouts on 3x3..5x5 (as C05); configurations: precise, default, multi-cut and mixed, '
         'sort on/off, table off / 3 entries .. 64 KB, fresh engines and engines that searched a neighbouring position before. For every '
         'position the context is cancelled inside the k-th leaf evaluation for EVERY k from 1 to the size of the search + 1 (searches up '
         'to 2000 leaves in quick, 100000 in thorough; a stride beyond) and the result is compared with the uninterrupted depth-limited run '
         'of the implementation; a subset of the cancelled engines (all iteration boundaries, 1 in 8 of the rest) is asked twice more and '
         'judged by the exhaustive-negamax / forced-result oracles; at every cancellation point the transposition table must be byte-identical to what it was when the flag was set (ttPut refuses writes). evaluations = cases replayed by the extracted model (3-7 k per '
         'position); the oracle count is input_distribution.cancel_points. Plus cancellations from a concurrent goroutine at random times.',
    assumptions=['no deadline, MaxEvals = 0', 'Seed != 0 (Analyze does not read the clock)',
                 'data-race freedom is not a theorem: judged by the race detector only (go build -race driver cancelling ~480 searches from a concurrent goroutine in the quick tier, ~1 400 in the thorough tier; a report is a violation of class data-race)'],
)

MANIFEST = dict(
    text="Coq (proved, no assumptions): on the engine model Search.v, whose cancellation flag flips inside the k-th leaf evaluation, a cancelled "
         "Analyze that reports depth d returns exactly pv, value, depth and statistics of the uninterrupted call limited to depth d on the same "
         "engine state (cancel_truncates), d is the deepest such depth (cancel_deepest), and nothing completed means no move "
         "(cancel_no_move); any k, configuration, table, history. cancel_preserves_engine (C16_cancel_preserves_engine; SearchTable3.v): for MakePrecise configurations with a table, the state left by a call cancelled inside any leaf evaluation satisfies the table invariant again and every later call on it reports right forced-result verdicts (under the NoCollision hypothesis of the table clause of C05; for the positions of one game only \"equal Position.Hash implies Position.Equal\": C16_cancel_preserves_engine_game). For every configuration without null move the soundness of later reports survives a cancellation (C16_cancel_preserves_soundness). The model is replayed against MinimaxAI.Analyze with "
         "cancellation injected deterministically at the same k (overlay accessor to the engine's flag), and an implementation-vs-"
         "implementation oracle checks EVERY cancellation point of each search against the depth-limited run, then the engine's later answers "
         "against exhaustive negamax.",
    ref='5.16', technique='Coq model with cancellation index + deterministic cancellation injection at every leaf + depth-limited-run oracle',
    note="Data-race clause: not expressible as a theorem about this model; decided by a go build -race driver in both tiers (a report of the detector is reported as a violation).")
