PROP = dict(
    model_args=[],
    cases_per_shard=8,
    trivial=lambda inp, out: inp.strip().endswith('-'),
    rule='legal move sequences: random playouts (slide- and stack-heavy policies), axis games that stay symmetric for many plies and then '
         'leave the axis with a slide, small-board slide-heavy games (positions symmetric from above with different captives), symmetric images '
         'of games, games with an illegal continuation (outcome only), and ALL games of <= 2 plies (3 thorough) on 3x3 and 4x4. The oracle '
         'checks legality, same length, prefix-image, equal canonical form of all eight images, idempotence. non-trivial = non-empty game',
    assumptions=['no two distinct positions met share a 64-bit hash (Canonical compares boards by hash)'],
)
MANIFEST = dict(
    text="Model of symmetry.Canonical (eight replay boards, rots prepend, compose last-applied-first, preferMove on (Y, X, Type)) compared with "
         "the implementation on every generated game; an independent Go oracle checks the three clauses of the property with its own symmetry maps, "
         "exhaustively for all short games on 3x3/4x4.",
    ref='5.15', technique='model/implementation differential + independent class-invariance / idempotence oracle (exhaustive on short games); Coq theorems pending',
    note="Trusted: Coq kernel, extraction, transcription of Canonical. The three theorems of DESIGN 5.15 are not yet proved: theorem side partial.")
