PROP = dict(
    model_args=[],
    cases_per_shard=8,
    trivial=lambda inp, out: inp.strip().endswith('-'),
    rule='CALL HISTORIES (120 per quick run): a priming Canonical call on a related input (same line or prefix on another board size, an image, the canonical form) immediately before the judged call; legal move sequences: random playouts (slide- and stack-heavy policies), axis games that stay symmetric for many plies and then '
         'leave the axis with a slide, small-board slide-heavy games (positions symmetric from above with different captives), symmetric images '
         'of games, games with an illegal continuation (outcome only), games played under CUSTOM configurations (reduced piece sets: legal under the default configuration too, fully judged; enlarged piece sets and extra capstones on small boards: Canonical, which always replays from the default configuration, must reject them where they use the extra pieces), and ALL games of <= 2 plies (3 thorough) on 3x3 and 4x4. The oracle '
         'checks legality, same length, prefix-image, equal canonical form of all eight images, idempotence. non-trivial = non-empty game',
    assumptions=['no two distinct positions met share a 64-bit hash (Canonical compares boards by hash)'],
)
MANIFEST = dict(
    text="Coq (Properties/C15.v, 22 obligations, closed under the global context), all three theorems of DESIGN 5.15 for the model of symmetry.Canonical with the "
         "real hash basis: (1) canonical_legal_images - when Canonical returns cs for ms, cs has the length of ms and for every k the first k "
         "moves of cs and of ms are legal games by Rules.v from the start position, the canonical one ending in one of the eight images of the "
         "other (so the input is legal too); (2) canonical_class_invariant - it then returns the same cs for each of the eight images of ms; "
         "(3) canonical_idempotent - and cs for cs. For ANY int8 move coordinates (an accepted move is proved to start on the board, through the "
         "code's wrapping flips), type <= 8 and slides with >= 1 drop (TransformMove panics otherwise), under the explicit NoCollision "
         "hypothesis (a board whose hash equals board 0's shows board 0's position). Proved from the loop invariant (board i = image i of "
         "board 0; tfn = compose rots is one of the eight symmetries and maps the original position onto board 0), the fact that the candidate "
         "loop computes the preferMove-minimum over exactly the stabiliser of board 0 (a group; preferMove a strict total order on an orbit), "
         "C14's rules_equivariant, C01's preservation theorems and C08's equal_complete. Nothing is assumed about the boards for sizes 3..6 "
         "(at most 64 pieces); for sizes 7, 8 the exact limit of the bit representation (no stack above 64 on the boards produced) is a "
         "hypothesis. Concrete 5x5 and 8x8 games with two rotations satisfy the hypotheses. For sizes 3..6 NoCollision is also given as a statement "
         "about Position.Hash and Position.Equal only (CanonGame.v: nocoll_pe_trace - a board whose hash equals board 0's is Position.Equal to it - "
         "implies the semantic form, because the eight boards are replays from tak.New of the same number of moves, i.e. positions of one game "
         "with the same ply counter, where Position.Equal identifies only equal records: C06's cinv_equal_sim); the three theorems and "
         "canonical_total are restated with it (the _game forms), and the 5x5 example satisfies it. "
         "Execution: model of symmetry.Canonical (eight replay boards, rots prepend, compose last-applied-first, preferMove) compared with "
         "the implementation on every generated game; an independent Go oracle checks the three clauses of the property with its own symmetry maps, "
         "exhaustively for all short games on 3x3/4x4.",
    ref='5.15', technique='Coq proofs of canonical_legal_images, canonical_class_invariant, canonical_idempotent + model/implementation '
                          'differential + independent class-invariance / idempotence oracle (exhaustive on short games)',
    note="Trusted: Coq kernel, extraction, transcription of Canonical. Also proved: Canonical accepts every legal game (canonical_total), so class "
         "invariance holds in the form `legal ms -> canonical (image of ms) = canonical ms`. Hypotheses that remain, all explicit: NoCollision on "
         "the hashes compared (sizes 3..6: in the plain form equal Hash => Position.Equal among the eight boards); for sizes 7, 8 no stack above 64 on the boards produced (the representation limit of the code, C01). symmetry.Canonical takes a board size and always replays from tak.New(Config{Size}): there is no configuration to carry over (C15_start_is_zero_config: the model's start position is FromSquares at the zero configuration of TpsCfg.v), unlike symmetry.Symmetries (C14). The model's "
         "Position.Move rejects Pass (the real code accepts it): games with a Pass are outside the theorems, as in C01.")
