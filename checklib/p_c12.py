def _trivial(inp, out):
    # trivial = the text does not parse (nothing is replayed)
    return ' ; P ERR ;' in out or ' ; P PANIC ;' in out


PROP = dict(
    model_args=[],
    trivial=_trivial,
    cases_per_shard=40,
    rule='PTN texts: Render of generated games (sizes 3..8; random legal playouts of 0..all plies under 6 policies, a third played to the '
         'end of the game; start from a TPS tag in a quarter of them, tags in either order, extra/duplicate/missing/out-of-range Size tags, '
         'mismatching or malformed TPS; 8 move-numbering modes incl. none, every move, random, drifting, restarted; comments with braces, '
         'brackets, quotes, bytes >= 0x80 at any place; annotations; results anywhere; appended illegal or off-board moves; records that go on '
         'after the game end; BOM in a third) and directed end-game records (TPS tag of a populated, nearly finished board with move counter 1..3 incl. the opening-rule case, sizes 3..8 in turn, game over 1..2*size plies into the file, 1..10 further moves after the end, occasionally a Size tag contradicting the TPS), each with PositionAtMove(n, colour) for n = 0, every marker present and 1..max+2, both colours, '
         'NoColor and negative n; plus call histories on ONE parsed object (queries that exhaust the record, then AddMoves or appended ops - legal continuation moves, markers, comments - then queries into the extension and n = 0; answers compared with the naive walk over the extended record, with a freshly parsed copy of Render(), and with the model on the extended op list); plus mutations of those texts (cut inside a comment, truncated, bytes overwritten, slices deleted/duplicated), '
         'a fixed list of corner cases and random strings over the PTN alphabet. non-trivial = text that parses; distinct = distinct inputs',
    assumptions=['tokens shorter than bufio.Scanner\'s 64 KiB limit (longer ones are a Scanner error, not modelled)',
                 'stacks at most 64 high (representation limit of the engine)',
                 'the property is silent on negative move numbers (the model comparison still covers them)'],
)

MANIFEST = dict(
    text="Coq theorems about the code-shaped model of ptn/ptn.go and ptn/iterator.go: the look-ahead Iterator latches (iterator_stops), "
         "PositionAtMove equals a 15-line specification walk for every game, move number and colour (position_at_move_spec), parsing the "
         "rendering of a syntactically well-formed game gives the game back, with or without BOM (ptn_render_parse), and for every byte string ParsePTN, "
         "InitialPosition, the Iterator replay and PositionAtMove never panic, TPS start positions with arbitrary stacks included "
         "(ptn_file_total; also listed by C13). The model is run against ParsePTN/Render/InitialPosition/Iterator/PositionAtMove on "
         "generated and mutated game texts, and an independent Go oracle (naive walk over the generated game with the rules oracle and DFS "
         "road search) judges the implementation's answers directly.",
    ref='5.12', technique='Coq proof (iterator simulation, tokeniser round trip) + extracted-model/implementation differential + Go replay oracle',
    note="Trusted: Coq kernel, extraction, hand transcription of ptn/ptn.go, ptn/iterator.go (validated by execution only), bufio/regexp/"
         "strconv/unicode behaviour as transcribed (Scanner token limit excluded), generators.")
