def _trivial(inp, out):
    # CASE P lines of a position that is not live would be trivial (none is generated); every CASE M line is a
    # move some player actually returned
    return inp.startswith('P ;') and out.startswith('0 ')


PROP = dict(
    model_args=[],
    trivial=_trivial,
    impl_timeout=1500,
    rule='direct oracle: live positions of sizes 3..8 (opening plies 0..3, middle game, 1-2 plies before the end of road-racing '
         'playouts, low reserves incl. "mover has only capstones left", constructed boards, tall central stacks with > 500 generated moves, '
         'consecutive positions of one game) x '
         'players {MinimaxAI Analyze / randomised GetMove / AnalyzeAll over the option lattice (NoSort, TableMem none/1-entry/tiny/'
         'small/default, NoNullMove, NoReduceSlides, MultiCut, DedupSymmetry, precise, depth 1..4 (to 6 thorough) and 7..15 cut by '
         'MaxEvals or a deadline, RandomizeWindow, seeds, two evaluators) with engines REUSED over 1..5 calls and, for a third of the table configurations, SIMULATED HASH '
         'COLLISIONS (table entries with the hash of the root / of its children holding an illegal move, planted through an overlay '
         'accessor); OpeningPlayer on '
         'every prefix position of the repository book lines (read from cmd/internal/playtak/book.go) and of synthetic books, in '
         'all 8 images built by an independent symmetry transform, every stored reply enumerated; MonteCarloAI with both policies, '
         'ForceCorners on/off, limits 20-50 ms and 100 ms, plus a sweep of ForceCorners over every first stone in a corner}. CASE lines = model correspondence: P = legal move set of every '
         'position used (model: all_moves filtered by mv_fixed, game_over), M = every (position, returned move) pair of the '
         'deterministic players judged by mv_fixed; MCTS = the Monte-Carlo model (coq/Mcts.v) against ai/mcts pass by pass; '
         'BOOK = the opening-book model (coq/Opening.v) against ai/opening.go: books = the repository lines, synthetic random games, '
         'transposing lines (two stones of one colour swapped, mirror images, prefixes, repeated lines: shared entries, weights > 1), '
         'lines with one planted defect (unparsable word, empty word from two spaces / a trailing space, square off this board, occupied '
         'square, wall or capstone in the opening, impossible slide, annotation suffix), sizes tak.New rejects, empty inputs; compared: '
         'OK / error exit with its line number and word / panic, the WHOLE built book (L2: entries by hash with position, replies and '
         'weights in append order), and the answers of OpeningBook.GetMove / OpeningPlayer.GetMove (stub inner player) to batches of '
         'queries (prefix positions of the lines in all 8 images, line ends, off-book positions) drawn from ONE scripted rand.Source per '
         'batch (all-zero, small, mixed, uniform Int31 values; the model reproduces Int31n from the recorded values). '
         'RAND = the randomised MinimaxAI.GetMove against the model coq/SearchRand.v (Analyze + the choice among the root moves): fresh engines on '
         '3x3/4x4 positions, depth 1-3, NoSort, tables none..2048 entries, null move / slide reduction / multi-cut on and off, both evaluators, '
         'RandomizeWindow 1..2^20, RandomizeScale 1 (2, 3, 7 for precise table-less engines), the first 400 values of rand.NewSource(Cfg.Seed) written '
         'into the case; compared: the returned move (or PANIC). '
         'non-trivial = all; distinct = distinct input strings',
    assumptions=['alpha-beta budgets allow at least the depth-1 iteration (a deadline run that was cancelled before is counted, not judged)',
                 'Monte-Carlo limit allows at least one playout (a run with a limit < 100 ms that did none is repeated once with 400 ms)',
                 'RandomizeScale is left at its default (the option lattice of the property)',
                 'constructed positions have ply >= 2 (ply 0/1 with pieces on the board cannot arise)',
                 'Monte-Carlo answers and deadline-limited alpha-beta answers are wall-clock dependent: they are judged by the oracle but not written as CASE lines',
                 'scripted Int31 values stay below 2^31 - 2^21, where math/rand.Int31n(n) is v mod n with exactly one draw (checked: one draw per stored reply)',
                 'simulated collisions never make a ROOT entry with depth >= Cfg.Depth (Analyze returns such a seed unvalidated; reachable only through a true 64-bit hash collision, DESIGN 5.4 NoCollisionOn)'],
)

MANIFEST = dict(
    text="Direct Go oracle on the implementation: every searching player (alpha-beta under the option lattice with reused engines, "
         "randomised GetMove, AnalyzeAll, the opening-book wrapper on all symmetric images of book positions, Monte-Carlo with both "
         "policies and corner forcing) is run on generated live positions; no crash, returned move / pv[0] legal by an independent rules "
         "oracle and by Position.Move, whole PV replays when the value is not decisive. Coq: a live position of the bit-level model has a "
         "legal move listed by AllMoves (C04_live_has_legal_move); abstract root-search invariant: generator yields only applied moves and "
         "loses none, the root PV head is legal for every search below the root (C04_root_first_move_legal), instantiated on the bit-level "
         "model (C04_analyze_first_move_legal_partial); deepening loop, randomised choice and AnalyzeAll keep legal heads. "
         "For the EXECUTED engine model coq/Search.v (replayed against ai/minimax.go + ai/moves.go by the C05/C16 checks): "
         "C04_analyze_first_move_legal - every configuration (any table, null move, slide reduction, multi-cut, sorting), any "
         "cancellation point, any engine history (state invariant SJ, kept by every call): a reported line is empty or starts with a "
         "move MovePreallocated accepts, and a call not reported as cancelled reports one; the window hypothesis is derived (every "
         "search value lies in [MinEval, MaxEval], from C18 and C04_live_has_legal_move), the table seed is covered by an explicit "
         "NoCollision hypothesis on the root entry; every board size and every game of at most 64 pieces (the standard sets of 3x3..6x6) without any side condition (_64, _game64). "
         "On the same executed model (third wave): C04_analyze_all_heads_legal_executed - every line of AnalyzeAll is non-empty and starts with an accepted move, "
         "every configuration, any table, any cancellation point; C04_get_move_randomised_legal - the randomised choice of MinimaxAI.GetMove "
         "(model coq/SearchRand.v on top of Search.v, random source = oracle stream of raw Int63 values, int64 arithmetic, Int63n transcribed): the "
         "returned move is accepted by MovePreallocated for every configuration, 0 < RandomizeWindow <= 2^29 and any RandomizeScale, and with the "
         "default scale it never panics; with RandomizeScale > RandomizeWindow it DOES panic (rand.Int63n(0); C04_get_move_scale_panics, reproduced "
         "on the real engine; outside the option lattice of the property); C04_pv_replays_precise - for MakePrecise without a table the WHOLE "
         "reported variation replays legally, for every value and every cancellation point, and so does every line the repaired AnalyzeAll lists, at every cancellation point (C04_analyze_all_lines_replay_precise). "
         "Monte-Carlo player: model coq/Mcts.v executed against ai/mcts pass by pass; every returned move legal for any random stream, "
         "score function and clock (C04_mcts_getmove_legal); no-panic partial. "
         "Opening book: model coq/Opening.v (BuildOpeningBook, OpeningBook.GetMove, OpeningPlayer.GetMove) executed against ai/opening.go "
         "(whole book + scripted-random answers); C04_opening_book_move_legal: for a book BuildOpeningBook accepted, under NoCollisionOn "
         "(queried position and the 8 images of every line position: equal Hash() => same squares and side to move) and the C01 "
         "64-stack limit along the lines (automatic for sizes 3..6), every move GetMove returns for a position satisfying the C01 "
         "invariant with default reserves is accepted by Position.Move; same for OpeningPlayer.GetMove given a legal inner answer; the "
         "book invariant itself (C04_opening_book_entries_legal), the hypotheses hold in every game from tak.New "
         "(C04_game_positions_satisfy_query_hypotheses), GetMove never panics below 2^28 book words (C04_opening_book_get_move_no_panic), non-vacuity on a concrete book. The model's legal move sets and its verdict on "
         "every returned move are compared with the implementation on every run.",
    ref='5.4', technique='independent Go oracle (rules + replay) over players x configurations + Coq invariant proofs + model/implementation differential on legality, MCTS passes and the opening book',
    note="Partial on the proof side: Analyze's first move is proved legal on the executed model (larger boards under the side condition withinP: "
         "C01's 64-stack limit along the searched tree; the model's loops take the node's own move count as fuel, so no bound on the number of generated moves is assumed); GetMove's randomised choice and "
         "AnalyzeAll are proved on the executed model Search.v + SearchRand.v (SearchRand.v is executed against the real GetMove on every run: CASE RAND lines, the random draws taken from the configured seed's source); configurations with DedupSymmetry are covered too: the model SearchDedup.v (Search.v plus pvSearch's symmetry cache, equal to Search.v with the option off) is executed on CASE RAND lines carrying the option, and the first-move theorem is proved for it in every configuration (C04_dedup_analyze_first_move_legal; SearchDedupLegal.v); whole-PV replay is proved for precise configurations without a table and covered by the oracle only otherwise; MCTS no-panic assumes evaluator totality and <= 64 pieces; "
         "opening book: 'GetMove never panics' is proved for books below 2^28 words (C04_opening_book_get_move_no_panic; beyond it rand.Int31n's argument wraps, in the code as in the model); "
         "NoCollisionOn and reserves_match_board / opening_consistent of the queried position are explicit hypotheses (a position with "
         "non-default piece counts can share a book position's hash and squares without sharing its legal moves). Found and repaired through "
         "this check: mcts cornerMove (3673ed6), mcts place_win panic without flat stones (0758f0d), zero-entry transposition table division by zero (5c30c8b).")

COQCHK = ['TV.Properties.C04']
