"""Per-property configuration of ./check: collected from checklib/p_cNN.py (one module per property).
Each module defines PROP (dict, see check), MANIFEST (dict: text, ref, technique, note) and optionally
EXTRACT_DEPS (extra .vo targets the extraction needs) and COQCHK (module names for coqchk)."""
import glob, os, importlib.util

PROPS = {}
MANIFESTS = {}
EXTRACT_DEPS = []
COQCHK_MODULES = []
for f in sorted(glob.glob(os.path.join(os.path.dirname(__file__), 'p_c*.py'))):
    name = os.path.basename(f)[2:-3].upper()
    spec = importlib.util.spec_from_file_location('p_' + name, f)
    m = importlib.util.module_from_spec(spec)
    try:
        spec.loader.exec_module(m)
    except Exception as e:      # a broken configuration file only affects its own property
        import sys
        print('checklib: %s does not load: %s' % (f, e), file=sys.stderr)
        continue
    PROPS[name] = m.PROP
    MANIFESTS[name] = m.MANIFEST
    EXTRACT_DEPS += getattr(m, 'EXTRACT_DEPS', [])
    COQCHK_MODULES += getattr(m, 'COQCHK', ['TV.Properties.' + name])
