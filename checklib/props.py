"""Per-property configuration of ./check."""

# .vo files the extraction needs (beyond Inst.vo)
EXTRACT_DEPS = []
# modules re-checked by coqchk in the thorough tier
COQCHK_MODULES = ['TV.Properties.C01']


def c01_trivial(inp, out):
    # trivial = malformed type code (rejected before anything else is looked at)
    try:
        t = int(inp.split(';')[1].strip().split(':')[2])
    except Exception:
        return False
    return t < 2 or t > 8


PROPS = {
    'C01': dict(
        model_args=['fixed'],
        trivial=c01_trivial,
        rule='(position, move) pairs: positions from random legal playouts (6 policies, sizes 3..8, default and custom reserves, '
             'past-the-end play) and random well-formed constructed boards (stacks up to 56 high) x (sampled AllMoves moves + malformed '
             'moves: whole int8 coordinate range, all type codes, junk Slides words, carries around the limits, dense off-board grid); '
             'non-trivial = type code in 2..8; distinct = distinct (position, move) strings',
        assumptions=['stack heights of source and rules successor <= 64 (documented representation limit)',
                     'Pass (type 1) is outside the claim'],
    ),
}
