PROP = dict(
    model_args=[],
    trivial=lambda inp, out: False,
    rule='COMPLETE enumeration on both sides: every placement and every slide composition (carry 1..n, each drop >= 1, ending on the '
         'board) in four directions from every square of sizes 3..8 (union: ~52k distinct move values); per move the short PTN, long PTN '
         'and playtak spellings, each parsed back, plus short and long spellings with an annotation suffix (10 shapes, rotating). '
         'The implementation is exercised by 8 concurrent workers. distinct = distinct moves',
    assumptions=[],
)
MANIFEST = dict(
    text="Coq theorems by complete enumeration lifted to forall: for every legal-shaped move (all 65 472 values on the 8x8 grid) the short "
         "PTN, long PTN and playtak wire spellings parse back to the identical move and hence agree. The codec models are compared with the "
         "implementation on the complete set of legal moves of sizes 3..8 (strings and parse results), and independent decoders of both "
         "notations check that each spelling denotes the intended move.",
    ref='5.11', technique='Coq proof by exhaustive computation (finite domain, bound in the statement) + exhaustive model/implementation differential + independent notation decoders',
    note="Trusted: Coq kernel (vm_compute), extraction, transcription of ptn/move.go and playtak/move.go. The arbitrary-suffix annotation lemma is not yet proved (checked on 10 suffix shapes per move).")
