PROP = dict(
    model_args=[],
    trivial=lambda inp, out: False,
    rule='COMPLETE enumeration on both sides: every placement and every slide composition (carry 1..n, each drop >= 1, ending on the '
         'board) in four directions from every square of sizes 3..8 (union: ~52k distinct move values); per move the short PTN, long PTN '
         'and playtak spellings, each parsed back, plus short and long spellings with an annotation suffix (10 shapes, rotating). '
         'The implementation is exercised by 8 concurrent workers. distinct = distinct moves',
    assumptions=[],
)
MANIFEST = dict(
    text="Coq theorems. (1) By complete enumeration lifted to forall: for every legal-shaped move (all 65 472 values on the 8x8 grid) the short "
         "PTN, long PTN and playtak wire spellings parse back to the identical move and hence agree. (2) Structural, for arbitrary byte lists: "
         "any text accepted by the PTN move parser, followed by an annotation byte (! ? * ') and then ANY bytes, parses to the same move; hence "
         "annotations_ignored: format_move[_long] m ++ c :: rest parses to m for every legal-shaped m, annotation byte c and suffix rest. "
         "(3) No silent different move: whatever the PTN parser accepts is a legal-shaped move (square on the grid, one of the seven type codes, "
         "Slides = 0 for placements, non-empty drops each >= 1 with total <= 8 for slides), so its canonical spellings parse back to it; whatever "
         "the playtak wire parser accepts has its square on the grid, a real type code, Slides = 0 for placements and every drop <= 8. "
         "The codec models are compared with the implementation on the complete set of legal moves of sizes 3..8 (strings and parse results, "
         "with annotation suffixes), and independent decoders of both notations check that each spelling denotes the intended move.",
    ref='5.11', technique='Coq proof by exhaustive computation (finite domain, bound in the statement) + structural Coq proofs over arbitrary byte lists + exhaustive model/implementation differential + independent notation decoders',
    note="Trusted: Coq kernel (vm_compute), extraction, transcription of ptn/move.go and playtak/move.go. All five theorems of DESIGN 5.11 are proved in full. "
         "Not a property of the code (and proved not to hold, PtnMoveFacts2.parse_server_accepts_zero_drop): the playtak wire parser does not check that drops are >= 1, "
         "that their number equals the distance between the two squares, or that they sum to <= 8; such moves are refused by Position.Move, not by the parser.")
