EXTRACT_DEPS = ['PnRun.vo', 'PnInst.vo', 'Pn2Run.vo']


def _trivial(inp, out):
    # trivial = the root itself is finished or solved while its children are generated (no search step)
    return out.split()[1:] == ['0:0:0:0'] if out.split()[:1] == ['proven'] else False


PROP = dict(
    model_args=[],
    cases_per_shard=20,
    trivial=_trivial,
    rule='one run = (root position, solver configuration). Roots: positions of random legal playouts and positions drawn from the solved '
         'graph itself, for 3x3 with 2-3 stones (with and without a capstone, both tie-break settings) and 4x4 with 1-2 stones (thorough: '
         '4x4 with 3 stones / 2 stones + capstone, 3x3 with 4 stones), whose complete reachable game graph (up to 1.2e7 positions) is solved '
         'exactly for both attackers by retrograde analysis; among them shuffle-prone roots (a wall and a stack on the board: the hunt for a '
         'wrong verdict caused by repetition) and finished games as roots; plus 4x4/5x5 positions with default reserves near the end of road races, '
         'judged one-sidedly by exhaustive search to depth 3-5. Solvers: PN (node limits 5..20000 and unlimited, MaxDepth 0..8, '
         'PreserveSolved on/off), PN-squared, DFPN (tables of 1..65536 entries, attacker unset / White / Black). Every run is judged by '
         'the oracle; the runs without PN-squared whose cost is within the model budget are also replayed by the extracted Coq model. '
         'non-trivial = the solver made at least one search step; distinct = distinct (root, configuration) strings',
    assumptions=['PN with MaxDepth = d: the depth limit counts against the attacker (DESIGN 5.6) - `disproven` then claims "no win within d plies" '
                 'and is judged against the exact least winning bound of the retrograde solution (a win deeper than d is no failure); `proven` '
                 'always has to be a real forced win',
                 'no 64-bit hash collision among the positions of one DFPN search',
                 'PN-squared is judged by the oracle only (the model has no PN-squared)',
                 'a returned move of type 0 is "no move"; with DFPN attacker != side to move the returned move is a move of the defender'],
)

MANIFEST = dict(
    text="Coq (8 theorems, closed under the global context): truth_equiv / truth_equiv_bounded (a forced win under the third-repetition "
         "rule = membership in the history-free attractor, any game, with a depth bound and positions identified by Position.Equal); "
         "pn_invariant (every node of every tree the PN search loop of the code-shaped model Pn.v reaches: proof number 0 -> forced win, "
         "disproof number 0 -> not won on its line of play within MaxDepth) and pn_verdict_sound for the entry point pn_run (proven -> "
         "forced win and the returned move keeps it; disproven -> no win within MaxDepth under the repetition rule), every node limit / "
         "PreserveSolved / MaxDepth, boards up to 8x8; dfpn_proven_sound over the code-shaped model Dfpn.v (thresholds, table with "
         "work-based replacement, killer moves, immediate-threat shortcut, repetition) under explicit hypotheses (no hash collision on the "
         "positions of the run, C19, a live position has a move), also for a reused solver; dfpn_disproven_sound for runs that met no "
         "repetition. The extracted models of prove/pn.go and prove/dfpn.go (incl. one solver reused over several positions) are replayed "
         "against Prover.Prove / DFPNSolver.Prove (verdict and move at L1; proof numbers, depth and all counters at L2), and an independent "
         "retrograde solver of the complete reachable game graph judges every verdict and returned move of PN, PN-squared and DFPN.",
    ref='5.6', technique='Coq proof (truth = attractor; PN invariant and verdict soundness; DFPN proven / repetition-free disproven soundness, over the code-shaped models) + extracted-model/implementation differential + exact retrograde oracle',
    note="Trusted: Coq kernel, extraction, transcription of prove/pn.go and prove/dfpn.go (validated by execution), generators, the "
         "retrograde oracle (uses the rules engine to enumerate the graph). Not proved: DFPN disproven for runs with repetitions "
         "(graph-history interaction; hunted by the oracle on the cyclic region of the solved graphs), the move returned by DFPN, "
         "PN-squared, and the congruence of Position.Equal that links the PN theorem's line-of-play truth to the attractor (the two "
         "_partial PN corollaries); the DFPN theorems carry NoCollision / C19 as hypotheses.")
