EXTRACT_DEPS = ['PnRun.vo', 'PnInst.vo', 'Pn2Run.vo']


def _trivial(inp, out):
    # trivial = the root itself is finished or solved while its children are generated (no search step)
    return out.split()[1:] == ['0:0:0:0'] if out.split()[:1] == ['proven'] else False


PROP = dict(
    model_args=[],
    cases_per_shard=20,
    trivial=_trivial,
    rule='one run = (root position, solver configuration). Roots: positions of random legal playouts and positions drawn from the solved '
         'graph itself, for 3x3 with 2-3 stones (with and without a capstone, both tie-break settings) and 4x4 with 1-2 stones (thorough: '
         '4x4 with 3 stones / 2 stones + capstone, 3x3 with 4 stones), whose complete reachable game graph (up to 1.2e7 positions) is solved '
         'exactly for both attackers by retrograde analysis; among them shuffle-prone roots (a wall and a stack on the board: the hunt for a '
         'wrong verdict caused by repetition) and finished games as roots; plus 4x4/5x5 positions with default reserves near the end of road races, '
         'judged one-sidedly by exhaustive search to depth 3-5. Solvers: PN (node limits 5..20000 and unlimited, MaxDepth 0..8, '
         'PreserveSolved on/off), PN-squared (a quarter of the PN runs; plus roots within the first plies of the 3x3 games and 4x4/5x5 '
         'positions with default reserves, screened by a run of the solver so that the first-level counter passes pn2Threshold = 1000 and '
         'the second level really starts, with node limits that give second-level limits of every kind: Live, Live^2/MaxNodes, none), '
         'DFPN (tables of 1..65536 entries, attacker unset / White / Black; one solver reused over sequences of positions; and the replayed '
         'two-call sequences of the repetition/table finding on 3x3 with 3 stones + capstone, judged by a depth-limited exhaustive search to '
         'the known distance; thorough: two long DFPN runs WITH repetitions - 3899 and 15362 calls of mid, 73 s and 8 min of model time, the cheapest that exist on 3x3 '
         'with 2 stones + capstone - replayed by the model, the only model cases '
         'that exercise the repetition branch and the rule that bounds resting on a repetition cut are not stored). Every run is judged by the oracle; the runs whose cost is '
         'within the model budget are also replayed by the extracted Coq model (PN-squared runs: Pn2.v, run with Config.Debug = 3 so that '
         'the number of second-level searches, the nodes they created and their limits are part of the comparison; plain PN runs: Pn.v). '
         'non-trivial = the solver made at least one search step; distinct = distinct (root, configuration) strings',
    assumptions=['PN with MaxDepth = d: the depth limit counts against the attacker (DESIGN 5.6) - `disproven` then claims "no win within d plies" '
                 'and is judged against the exact least winning bound of the retrograde solution (a win deeper than d is no failure); `proven` '
                 'always has to be a real forced win',
                 'no 64-bit hash collision among the positions of one DFPN search',
                 'PN-squared runs that are compared with the model are made with Config.Debug = 3 (pn2() then logs one line per second-level '
                 'search; logging is assumed not to change the search) and one at a time; the other PN-squared runs are judged by the oracle only',
                 'a returned move of type 0 is "no move"; with DFPN attacker != side to move the returned move is a move of the defender'],
)

MANIFEST = dict(
    text="Coq (40 theorems, closed under the global context): truth_equiv / truth_equiv_bounded (a forced win under the third-repetition "
         "rule = membership in the history-free attractor, any game, with a depth bound and positions identified by Position.Equal); "
         "pn_invariant (every node of every tree the PN search loop of the code-shaped model Pn.v reaches: proof number 0 -> forced win, "
         "disproof number 0 -> not won on its line of play within MaxDepth) and pn_verdict_sound for the entry point pn_run (proven -> "
         "forced win and the returned move keeps it; disproven -> no win within MaxDepth under the repetition rule), every node limit / "
         "PreserveSolved / MaxDepth, boards up to 8x8; pn2_invariant and pn2_verdict_sound: the same two statements for the model Pn2.v of "
         "the search WITH the PN-squared switch (second-level search from the selected node once Stats.Nodes exceeds pn2Threshold, own "
         "counters and node limit Live^2/MaxNodes, numbers / value / depth statistic copied back, children kept as unexpanded leaves with "
         "their second-level numbers, ancestors of a node left unsolved not recomputed, iterations resuming at the node where "
         "updateAncestors stopped), entry point pn2_run, for every threshold, either setting of the switch, any fuel; pn2_off_is_pn: with the switch off the PN-squared "
         "model returns exactly what the plain model returns (tree, counters, verdict, move) - the re-descent from the root of Pn.v and the "
         "resumption at `current` of Pn2.v / the code are the same computation without PN2; pn2_no_impossible_stop (the two defensive stops "
         "of Pn2.v are dead code); dfpn_proven_sound over the code-shaped model Dfpn.v (thresholds, table with "
         "work-based replacement, killer moves, immediate-threat shortcut, repetition) under explicit hypotheses (no hash collision on the "
         "positions of the run, C19, a live position has a move), also for a reused solver; dfpn_disproven_sound IN FULL for the solver as "
         "repaired after the finding reused-solver-wrong-disproven (mid stores its result only when no repetition cut happened below it): "
         "every `disproven` of a fresh solver, of a solver whose table holds facts, and of every call of a sequence on one reused solver "
         "(prove_on / prove_seq) is sound, any table size, any fuel, repetitions and table hits included (DfpnRep8.v: the table holds "
         "unconditional facts, returned bounds are relative to the strict ancestors on the stack - DfpnRep1.CL - and unconditional for "
         "clean calls); kept from the analysis of the unrepaired solver: sound when Repetition = 0 (fresh) / when Hits is unchanged (any "
         "table). equal_congruent (positions that Position.Equal identifies have the same value) proved for the positions of one game "
         "(PnCong1-5: cinv = C01's invariant, <= 64 pieces, reserves = configuration - board, ply counter on the side of the opening the "
         "board shows; preserved by moves, established by tak.New), hence the two PN corollaries against the attractor without the "
         "congruence hypothesis for every replay from tak.New; position sets given by representatives up to the ply counter (DfpnRep3) make "
         "games with slide cycles enumerable inside Coq (DfpnRep4: 657 classes, proven / disproven runs). dfpn_proven_move (DfpnMove.v): the "
         "move DFPN returns with `proven` (entry.pv of the root: the move of the last child the root loop descended into), when of type <> 0, "
         "is a generated legal move after which the attacker still has a forced win - a move of the attacker when the attacker is to move, a "
         "reply of the defender (all of which are won) when the configured attacker is not to move; fresh and reused solvers. The two attractor "
         "corollaries also for the PN-squared entry point pn2_run on every replay from tak.New (PnCong6.v). The extracted models of prove/pn.go and prove/dfpn.go (incl. one solver reused over several positions) are replayed "
         "against Prover.Prove (with and without PN-squared) / DFPNSolver.Prove (verdict and move at L1; proof numbers, depth, all counters "
         "and the trace of the second level at L2), and an independent "
         "retrograde solver of the complete reachable game graph judges every verdict and returned move of PN, PN-squared and DFPN.",
    ref='5.6', technique='Coq proof (truth = attractor; PN invariant and verdict soundness; DFPN proven and disproven soundness incl. reused solvers, over the code-shaped models) + extracted-model/implementation differential + exact retrograde oracle',
    note="Trusted: Coq kernel, extraction, transcription of prove/pn.go (Pn.v, Pn2.v) and prove/dfpn.go (validated by execution), generators, the "
         "retrograde oracle (uses the rules engine to enumerate the graph). Not proved: the congruence (hence the attractor corollaries) for "
         "games with more than 64 pieces (default 7x7, 8x8); the zero Move that DFPN can return with `proven` carries no claim; the DFPN "
         "theorems carry NoCollision / C19 as hypotheses. The graph-history interaction of DFPN's repetition handling with its table was a "
         "real defect (known_findings.json reused-solver-wrong-disproven, repaired by 7a5b6bf); for a FRESH solver no wrong verdict was ever "
         "observed on Tak (~550k targeted runs) although the unrepaired algorithm is wrong on an abstract 19-node game graph "
         "(notes/c06_ghi/d4.txt).")
