def _trivial(inp, out):
    # trivial = a sequence without any operation that reuses storage or clones (only Move into fresh storage)
    return (' P ' not in inp) and (' C ' not in inp)


PROP = dict(
    model_args=['fixed'],
    trivial=_trivial,
    rule='operation sequences over a set of handles, sizes 3..8: start positions built by FromSquares from playouts (also past the end '
         'of the game), boards with finished roads, random stacks, domino tilings with more than 2*size groups (FloodGroups outgrows the '
         "object's Groups array), or tak.New; then up to 30 operations Move / MovePreallocated (buffer = h's own parent, the object another "
         'live handle was derived from, a dead buffer left by a failed move, an Alloc buffer, or another live handle) / Clone / Alloc, with '
         'legal moves, Pass and illegal moves (off board, bad type, failing early and failing late after the buffer was written); plus '
         'every admissible sequence of <= 2 (quick) / <= 4 (thorough) operations over three handles with a two-move menu. After EVERY '
         'operation EVERY live handle is observed (squares, reserves, ply, GameOver, both group slices, Hash, legal move set). '
         'non-trivial = sequence contains MovePreallocated or Clone; distinct = distinct sequences',
    assumptions=['a buffer passed to MovePreallocated has the board size of the source and is not the source itself (ops_ok2; '
                 'C09_value_semantics2_needs_size shows in the model that the statement fails for a buffer of another size)',
                 'a handle stops being live when it is passed as a buffer',
                 'stack heights <= 64 (documented representation limit)'],
    impl_timeout=3000, model_timeout=3000,
)

MANIFEST = dict(
    text="Coq theorems over an explicit ownership model of tak/alloc.go (objects, slice headers, a heap of group arrays, Go's append): "
         "for every admissible operation sequence the storage invariant holds (every object's WhiteGroups header points into an array no "
         "other object's does; a live handle's BlackGroups lie in that array or in an array no WhiteGroups header points into), every live "
         "handle shows exactly the observables of the pure position value computed for it (value_semantics), and a clone shows the "
         "observables of its source immediately and after any further operations (clone_identical); the pinned Clone is refuted in the "
         "model. A refined store model (Alloc2.v) removes the exemption of Height/Stacks: all four slices of a Position are headers into "
         "heap arrays, alloc/copyPosition/copy act on headers and cells, MovePreallocated reads the source through the source's headers and "
         "writes the destination's cells in place; proved for it: owns2_invariant (every object's Height/Stacks headers are its own embedded "
         "arrays, no array is owned by two objects, a live handle's BlackGroups lie in its own WhiteGroups array or an unowned one), "
         "no_sharing, value_semantics2 (every live handle shows the pure value THROUGH its headers, nothing exempt), clone_identical2 and that the in-place "
         "move simulates the value-level move on any heap. Both store models and the pure value model are run against the implementation "
         "after every operation of generated sequences for every live handle (L2 = the four headers of every held object named by the "
         "object whose embedded array they point into, i.e. the alias structure, against the addresses of the Go slices), and an "
         "independent Go oracle holds a deep snapshot of every live handle, re-derives groups/outcome/hash "
         "from the squares at creation, and checks on the slice headers' addresses that no storage written through one object is read "
         "through a live handle of another.",
    ref='5.9', technique='Coq proof (ownership invariant, value semantics by induction over operation lists) + store-model/implementation '
                         'differential after every operation + snapshot and address-level alias oracle',
    note="Trusted: Coq kernel, extraction, hand transcription of alloc.go/analyze/Clone/MovePreallocated (validated by execution), that the Go "
         "runtime implements slices, copy and append as specified, generators.")
