PROP = dict(
    model_args=[],
    cases_per_shard=20,
    trivial=lambda inp, out: False,
    rule='(position, move) pairs x every entry of Symmetries(p): positions from playouts, axis games (symmetric for many plies), boards that '
         'fit the default reserves, boards mirror-symmetric from above with different captives; moves = sampled AllMoves moves + illegal but '
         'transformable moves (occupied squares, off-board origins, bad slides); sizes 3..8. Per image: which of the eight maps it is paired with, '
         'the image position, TransformMove of the move, the result of applying it. distinct = distinct (position, move)',
    assumptions=['moves are transformable: valid type code and, for slides, at least one drop (TransformMove panics otherwise; outside the claim)',
                 'no two distinct images of the positions met share a 64-bit hash (Symmetries de-duplicates by hash)'],
)
MANIFEST = dict(
    text="Coq (Properties/C14.v, 34 obligations, all closed under the global context): on the rules specification Rules.v, for each of the eight symmetries k "
         "and EVERY raw move value (illegal, off-board, bad type code included) rules_move (img k b) (tm k m) = option_map (img k) (rules_move b m) "
         "(rules_equivariant); roads, flat counts, fullness, reserves, side to move and hence the outcome are invariant; the images compose like "
         "the group table and k / inv k undo each other; the code-shaped TransformMove (int8 flips, direction re-derived from the end point) "
         "equals tm on every transformable move (coordinates in [-64,64), type <= 8, slides with >= 1 drop) and panics on the rest; and through "
         "C01's refinement theorems the bit-level Position.Move commutes with the symmetries (Ok/Err-wise, results abs-equal, never Panic, the "
         "invariant pos_ok holds again; exact representation limit: no stack of the successor above 64) and through C02's game_over_correct "
         "GameOver / WinDetails are equal, for any two positions satisfying the invariants that show a board and its image. "
         "THE REBUILT IMAGES (Import3-6.v): image_pos_ok, image_abs: the position Symmetries rebuilds for the k-th map (Position.At of every "
         "square, permuted, through FromSquares) satisfies pos_ok and abstracts to img k (abs p), so move_equivariant and gameover_invariant hold "
         "for q := image p s (C14_move_equivariant, C14_gameover_invariant) and, stronger, Move (image p) (TransformMove m) = image (Move p m) "
         "FIELD FOR FIELD, both failing together, never panicking (move_commutes); an image undone by the inverse symmetry is the position itself "
         "(image_image_inv). symmetries_firsts: Symmetries(p) is exactly the list of the eight rebuilt images with every entry dropped whose "
         "Hash() occurred before. symmetries_exact: under no_collision on the eight images every entry is (image k, k) with k the first index "
         "producing that image, every image is in the list, and no two entries show the same board or have the same Hash(). "
         "Execution: model of Symmetries / TransformMove composed with the proved move model is compared with the implementation on every image of "
         "every generated (position, move); an independent Go oracle with its own eight coordinate maps checks commutation of move application, "
         "invariance of legality / game over / winner / flat counts, and that Symmetries lists each distinct image exactly once paired with the "
         "transform producing it.",
    ref='5.14', technique='Coq proofs (rules_equivariant, road/outcome invariance, TransformMove = tm, Move equivariance via C01) + '
                          'model/implementation differential + independent symmetry oracle',
    note="Trusted: Coq kernel, extraction, transcription of symmetry/canonical.go. The image theorems need, beyond pos_ok, that the reserves of p are the default counts minus the pieces on its board and that its tie-break flag is the default: the MODEL of Symmetries rebuilds through FromSquares on tak.New with the default configuration (the real code passes p.Config(), so custom counts / BlackWinsTies are carried over there; that configuration is covered by execution only). Both hypotheses are proved to hold again for images and successors. Pass is excluded as in C01; moves are transformable and successors within the 64 limit (fits64). no_collision is a hypothesis of symmetries_exact (B) only.")
