PROP = dict(
    model_args=[],
    cases_per_shard=20,
    trivial=lambda inp, out: False,
    rule='(position, move) pairs x every entry of Symmetries(p): positions from playouts, axis games (symmetric for many plies), constructed boards '
         '(winding roads, many groups, tall stacks), boards mirror-symmetric from above with different captives, full boards with TIED flat counts '
         'and boards one placement away from a tie - under the DEFAULT configuration and under CUSTOM ones (about half of the cases: reduced piece sets '
         'down to 2 stones, enlarged ones, extra capstones on small boards, fitted exact counts = an exhausted reserve, BlackWinsTies in about a '
         'quarter); moves = sampled AllMoves moves + illegal but transformable moves (occupied squares, off-board origins, bad slides); sizes 3..8. '
         'Per image: which of the eight maps it is paired with, the image position (squares, reserves, ply), its tie-break flag, its WinDetails, '
         'TransformMove of the move, the result of applying it with the WinDetails of the successor. The model is Symmetries under the '
         "position's own configuration (input carries Config().Pieces/Capstones). distinct = distinct (position, move)",
    assumptions=['moves are transformable: valid type code and, for slides, at least one drop (TransformMove panics otherwise; outside the claim)',
                 'no two distinct images of the positions met share a 64-bit hash (Symmetries de-duplicates by hash)'],
)
MANIFEST = dict(
    text="Coq (Properties/C14.v, 61 obligations, all closed under the global context): on the rules specification Rules.v, for each of the eight symmetries k "
         "and EVERY raw move value (illegal, off-board, bad type code included) rules_move (img k b) (tm k m) = option_map (img k) (rules_move b m) "
         "(rules_equivariant); roads, flat counts, fullness, reserves, side to move and hence the outcome are invariant; the images compose like "
         "the group table and k / inv k undo each other; the code-shaped TransformMove (int8 flips, direction re-derived from the end point) "
         "equals tm on every transformable move (coordinates in [-64,64), type <= 8, slides with >= 1 drop) and panics on the rest; and through "
         "C01's refinement theorems the bit-level Position.Move commutes with the symmetries (Ok/Err-wise, results abs-equal, never Panic, the "
         "invariant pos_ok holds again; exact representation limit: no stack of the successor above 64) and through C02's game_over_correct "
         "GameOver / WinDetails are equal, for any two positions satisfying the invariants that show a board and its image. "
         "THE REBUILT IMAGES (Import3-6.v): image_pos_ok, image_abs: the position Symmetries rebuilds for the k-th map (Position.At of every "
         "square, permuted, through FromSquares) satisfies pos_ok and abstracts to img k (abs p), so move_equivariant and gameover_invariant hold "
         "for q := image p s (C14_move_equivariant, C14_gameover_invariant) and, stronger, Move (image p) (TransformMove m) = image (Move p m) "
         "FIELD FOR FIELD, both failing together, never panicking (move_commutes); an image undone by the inverse symmetry is the position itself "
         "(image_image_inv). symmetries_firsts: Symmetries(p) is exactly the list of the eight rebuilt images with every entry dropped whose "
         "Hash() occurred before. symmetries_exact: under no_collision on the eight images every entry is (image k, k) with k the first index "
         "producing that image, every image is in the list, and no two entries show the same board or have the same Hash(). "
         "UNDER THE POSITION'S OWN CONFIGURATION (TpsCfg.v, SymmetryCfg.v, ImportCfg1-5.v; C14_cfg_*): symmetry.Symmetries passes p.Config() to "
         "FromSquares, so custom Pieces / Capstones / BlackWinsTies are carried over. from_squares_cfg models FromSquares under an arbitrary "
         "Config (tak.New's defaulting of a zero count, byte reserves), image_cfg / symmetries_cfg the image and the list under p's configuration; "
         "the older models are proved to be their default-configuration instances. For ANY piece counts and flag: FromSquares of a fitting board "
         "satisfies pos_ok, has the flag, shows the board, has reserves = configuration - pieces on the board (from_squares_cfg_wf); the image "
         "satisfies pos_ok, has p's flag and matching reserves, and - when p's reserves are the configuration's counts minus the pieces on its board "
         "(reserves_match_cfg: established by tak.New(cfg) and FromSquares(cfg), preserved by every move and every image, implied by C06's game "
         "invariant cinv) - abs (image) = img k (abs p) with NO hypothesis on the flag; Move (image p) (TransformMove m) = image (Move p m) field "
         "for field; GameOver / WinDetails AND the tie-break flag agree (a tied flat count is Black's win under BlackWinsTies in every image: "
         "C14_cfg_nonvacuous_tie, where the default-configuration image reports a draw); image of image by the inverse is p; symmetries_exact "
         "(each distinct image exactly once, paired with the first transform producing it, each entry with p's flag and matching reserves); the "
         "transforms listed do not depend on the configuration. "
         "Execution: the model of Symmetries UNDER THE POSITION'S CONFIGURATION / TransformMove composed with the proved move model and the GameOver "
         "model is compared with the implementation on every image of every generated (position, move), default and custom configurations alike "
         "(squares, reserves, tie-break flag, WinDetails of image and successor); an independent Go oracle with its own eight coordinate maps checks "
         "commutation of move application, invariance of legality / game over / winner / flat counts, that every image has the position's "
         "configuration, and that Symmetries lists each distinct image exactly once paired with the transform producing it.",
    ref='5.14', technique='Coq proofs (rules_equivariant, road/outcome invariance, TransformMove = tm, Move equivariance via C01) + '
                          'model/implementation differential + independent symmetry oracle',
    note="Trusted: Coq kernel, extraction, transcription of symmetry/canonical.go. The image theorems in their final form (C14_cfg_*) model what the code does - FromSquares under p.Config() - and need, beyond pos_ok, only that the reserves of p are the configuration's counts minus the pieces on its board (byte arithmetic); nothing about the tie-break flag. Config().Pieces / Capstones are parameters of the model (the position record has no such fields; the driver reads them from Position.Config()); Go ints, modelled as N (negative counts not modelled). The gameover theorem keeps C02's domain: the byte sums stones+capstones of a player below 256. The older default-configuration theorems (C14_image_abs etc.: hypotheses reserves_match_board, black_wins_ties = false) are kept as instances. symmetry.Canonical takes a size and always starts from the zero configuration: C15 has no configuration to carry (SymmetryCfg.new_pos_zero). Pass is excluded as in C01; moves are transformable and successors within the 64 limit (fits64). no_collision is a hypothesis of symmetries_exact (B) only.")
