PROP = dict(
    model_args=[],
    cases_per_shard=20,
    trivial=lambda inp, out: False,
    rule='(position, move) pairs x every entry of Symmetries(p): positions from playouts, axis games (symmetric for many plies), boards that '
         'fit the default reserves, boards mirror-symmetric from above with different captives; moves = sampled AllMoves moves + illegal but '
         'transformable moves (occupied squares, off-board origins, bad slides); sizes 3..8. Per image: which of the eight maps it is paired with, '
         'the image position, TransformMove of the move, the result of applying it. distinct = distinct (position, move)',
    assumptions=['moves are transformable: valid type code and, for slides, at least one drop (TransformMove panics otherwise; outside the claim)',
                 'no two distinct images of the positions met share a 64-bit hash (Symmetries de-duplicates by hash)'],
)
MANIFEST = dict(
    text="Model of Symmetries / TransformMove (int8 flips, direction re-derived from the transformed endpoint) composed with the proved move "
         "model is compared with the implementation on every image of every generated (position, move); an independent Go oracle with its own "
         "eight coordinate maps checks commutation of move application, invariance of legality / game over / winner / flat counts, and that "
         "Symmetries lists each distinct image exactly once paired with the transform producing it. Coq: symmetry group table and adjacency preservation (Sym.v).",
    ref='5.14', technique='model/implementation differential + independent symmetry oracle; Coq proofs of the group facts (equivariance theorem on Rules.v pending)',
    note="Trusted: Coq kernel, extraction, transcription of symmetry/canonical.go. rules_equivariant is not yet proved: claimed with the theorem side partial.")
