PROP = dict(
    model_args=[],
    trivial=lambda inp, out: out.startswith('0 '),   # trivial = game not over and nothing decided
    rule='positions: final and sampled positions of random playouts (road-racing, edge-hugging, reserve-draining policies; small custom '
         'reserves so that games end by exhaustion with capstones left; both tie-break settings), constructed road boards (bending '
         'self-avoiding walks edge to edge, capstones on the road, walls / enemy pieces cutting it, double roads, filled remainder), random '
         'constructed boards, full boards; sizes 3..8. non-trivial = finished game; distinct = distinct positions',
    assumptions=['positions are well-formed (produced by Move / FromSquares)'],
)
MANIFEST = dict(
    text="Coq theorems: the bitboard flood fill computes exactly the orthogonal connectivity classes (groups_spec) and the engine's "
         "two-opposite-edge-masks test on them holds iff an orthogonally connected edge-to-edge path of road squares exists (road_bits_iff), "
         "for every size 3..8 and every set of squares. The model of GameOver/WinDetails/ResultFromGame is run against the implementation "
         "and a Go depth-first road search + flat count oracle judges the implementation directly.",
    ref='5.2', technique='Coq proof (flood fill = connectivity, road test = path existence) + model/implementation differential + DFS oracle',
    note="Trusted: Coq kernel, extraction, transcription of bitboard/bits.go and tak/game.go (validated by execution), generators.")
