PROP = dict(
    model_args=[],
    trivial=lambda inp, out: out.startswith('0 '),   # trivial = game not over and nothing decided
    rule='positions: final and sampled positions of random playouts (road-racing, edge-hugging, reserve-draining policies; small custom '
         'reserves so that games end by exhaustion with capstones left; both tie-break settings), roads completed BY A MOVE out of Position.Move (placing a flat or capstone, sliding a piece into the gap, a capstone on own flats flattening an own or enemy wall in the gap), constructed road boards (bending '
         'self-avoiding walks edge to edge, capstones on the road, walls / enemy pieces cutting it, double roads, filled remainder), random '
         'constructed boards, full boards; sizes 3..8. non-trivial = finished game; distinct = distinct positions',
    assumptions=['positions are well-formed (produced by Move / FromSquares)'],
)
MANIFEST = dict(
    text="Coq theorem game_over_correct: for every position of size 3..8 that satisfies the representation invariant of C01 "
         "(board_ok), has no bit outside the board squares and whose reserves satisfy stones+capstones < 256 per colour, the rules "
         "(Rules.Outcome over the abstraction abs: road owner / on a double road the player who just moved / full board or a player out of "
         "pieces -> flat count with the tie-break setting / otherwise undecided) assign exactly one outcome, and GameOver returns "
         "(decided?, winner), WinDetails returns {over, reason road|flats, winner, the rules' two flat counts} and ResultFromGame the "
         "corresponding result text (panic exactly when undecided). Ingredients, all proved: the bitboard flood fill computes exactly the "
         "orthogonal connectivity classes (groups_spec), the two-opposite-edge-masks test holds iff an orthogonally connected edge-to-edge "
         "path exists (road_bits_iff, every size, every set of squares), road bits = flat/capstone tops of the colour (road_test), "
         "popcount = number of flat tops (count_flats), White|Black = Mask iff every square occupied, byte-sum reserve test = out of pieces. "
         "Non-vacuity: a reachable 5x5 position with a bending road through a capstone, a 3x3 double road, a full-board tie under both "
         "tie-break settings. The extra invariant clauses are shown inductive along moves (inv_step). The model of "
         "GameOver/WinDetails/ResultFromGame is run against the implementation and a Go depth-first road search + flat count oracle "
         "judges the implementation directly.",
    ref='5.2', technique='Coq proof (end-of-game refinement theorem against the rules specification) + model/implementation differential + DFS oracle',
    note="Trusted: Coq kernel, extraction, transcription of bitboard/bits.go and tak/game.go (validated by execution), generators. "
         "Hypotheses that are exact: with stones+capstones = 256 (e.g. Config{Pieces:250, Capstones:6}) the byte sum wraps and the engine "
         "declares the empty board finished (Example reserves_wrap); stray bits outside the board can fake a road (Examples stray_bit, "
         "stray_no_road) - neither is reachable from New/FromSquares with the standard piece counts.")
