def _trivial(inp, out):
    # trivial = malformed type code (rejected before anything else is looked at)
    try:
        t = int(inp.split(';')[1].strip().split(':')[2])
    except Exception:
        return False
    return t < 2 or t > 8


PROP = dict(
    model_args=['fixed'],
    trivial=_trivial,
    rule='(position, move) pairs: positions from random legal playouts (6 policies, sizes 3..8, default and custom reserves, '
         'past-the-end play) and random well-formed constructed boards (stacks up to 56 high) x (sampled AllMoves moves + malformed '
         'moves: whole int8 coordinate range, all type codes, junk Slides words, carries around the limits, dense off-board grid); '
         'non-trivial = type code in 2..8; distinct = distinct (position, move) strings',
    assumptions=['stack heights of source and rules successor <= 64 (documented representation limit)',
                 'Pass (type 1) is outside the claim'],
)

MANIFEST = dict(
    text="Coq theorem move_refines_rules: for every well-formed position and every raw Move value (any int8 coordinates, type code, Slides word) "
         "the bit-level model of MovePreallocated succeeds iff the rules specification (Rules.v) allows the move, with exactly the rules successor, "
         "and never panics. The model is run against the real Position.Move on ~50k (quick) generated (position, move) pairs per run, bit for bit, "
         "and an independent Go rules oracle judges the implementation's outputs directly.",
    ref='5.1', technique='Coq refinement proof (bit-level model vs rules spec) + extracted-model/implementation differential + Go rules oracle',
    note="Trusted: Coq kernel, extraction (ExtrOcamlBasic), hand transcription of tak/move.go (validated by execution only), generators. "
         "Theorem currently assumes each stack <= 64 - size (tall_ok), slightly below the 64-piece representation limit.")
