def _trivial(inp, out):
    # trivial = malformed type code (rejected before anything else is looked at)
    try:
        t = int(inp.split(';')[1].strip().split(':')[2])
    except Exception:
        return False
    return t < 2 or t > 8


PROP = dict(
    model_args=['fixed'],
    trivial=_trivial,
    rule='CONCURRENT family: 18 000 Move calls from 6 goroutines at once on judged (position, move) pairs of mixed sizes, each result compared with the sequential, rules-conforming one; (position, move) pairs: positions from random legal playouts (6 policies, sizes 3..8, default and custom reserves, '
         'past-the-end play) and random well-formed constructed boards (stacks up to 56 high) x (sampled AllMoves moves + malformed '
         'moves: whole int8 coordinate range, all type codes, junk Slides words, carries around the limits, dense off-board grid); '
         'non-trivial = type code in 2..8; distinct = distinct (position, move) strings',
    assumptions=['stack heights of source and rules successor <= 64 (documented representation limit)',
                 'Pass (type 1) is outside the claim'],
)

MANIFEST = dict(
    text="Coq theorems (Properties/C01.v, 25 obligations, all closed under the global context). "
         "move_refines_rules64: for every position satisfying the invariant pos_ok (bitboards/heights/stack words describe a board with only "
         "flats below the tops, stacks <= 64, byte reserves, canonical stack words, hash = from-scratch formula) and EVERY raw Move value other than "
         "Pass (any int8 coordinates, type code, Slides word) whose rules successor has no stack above 64, the bit-level model of the repaired "
         "MovePreallocated succeeds iff the rules specification (Rules.v) allows the move, the result abstracts to exactly the rules successor AND "
         "satisfies pos_ok again, it fails iff the rules reject, and it never panics. move_exact: legality, panic-freedom, reserves/ply/piece count, "
         "hash invariant and stack lengths are right with no hypothesis on the successor at all; contents are right as soon as the result has no "
         "stack above 64. new_ok: tak.New satisfies pos_ok and is the rules' start position. replay_refines / reachable_ok: for every list of raw "
         "moves replayed from tak.New in a game of at most 64 pieces (sizes 3..6 with the default counts: reachable_ok_default) the replay fails "
         "exactly when the rules reject a move, never panics, and EVERY position reached satisfies pos_ok and abstracts to the position the rules "
         "reach; replay_refines64: the same for any game as long as no position on the way has a stack above 64. "
         "IMPORT PATHS (Import1-3.v): from_squares_wf: tak.FromSquares (on tak.New, default counts) of EVERY fitting board - 3..8 rows of as many "
         "squares, each empty or of the shape Position.At produces and at most 64 high - and any ply number satisfies pos_ok and abstracts to "
         "exactly that board, with no condition on the piece counts (the byte reserves wrap; pos_ok only asks for byte range); the reserves are "
         "exactly default minus pieces on the board iff no colour/kind exceeds its default count (counts_fit; reserve_hypothesis_exact is the "
         "wrapping witness). parse_tps_shape / parse_tps_wf: whatever text ParseTPS accepts, its result is FromSquares of a board of that shape, so "
         "it satisfies pos_ok and abstracts to the parsed board as soon as no parsed stack is above 64 (the parser has no height bound: "
         "parse_tps_over64_refuted parses a 65-high stack into a position that breaks the invariant). image_pos_ok: the positions "
         "symmetry.Symmetries rebuilds satisfy pos_ok whenever the source does. "
         "The model is run against the real Position.Move on ~45k (quick) generated (position, move) pairs per run, bit for bit, "
         "and an independent Go rules oracle judges the implementation's outputs directly.",
    ref='5.1', technique='Coq refinement + invariant-preservation proof (bit-level model vs rules spec, induction over the drop loop and over move lists) '
                         '+ extracted-model/implementation differential + Go rules oracle',
    note="Trusted: Coq kernel, extraction (ExtrOcamlBasic), hand transcription of tak/move.go (validated by execution only), generators. "
         "The height hypothesis is now the exact limit of the 64-bit stack words (first version: 64 - size): a drop that raises a stack above 64 "
         "succeeds in the code and silently loses the bottom pieces' colours (sizes 7 and 8 have 84 and 104 pieces, so such positions are "
         "reachable in principle); nothing in the code checks it - over64_refuted is a machine-checked witness (63-high stack + 3 on 3x3). FromSquares/ParseTPS: nothing checks the height of an imported stack either (Height is uint8(len), bits beyond 64 are dropped) nor the piece counts (reserves wrap below zero): imports are inside the proved invariant only for stacks <= 64; the model of FromSquares covers the default configuration only (tak.Config{Size: n}, which is what ParseTPS passes). Not proved: Pass.")
