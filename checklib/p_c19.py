def _trivial(inp, out):
    # trivial = no threat reported for either side
    return out.split() == ['0', '0', '0', '0']


PROP = dict(
    model_args=[],
    trivial=_trivial,
    rule='positions from ply 2 on: random playouts (road-racing, edge-hugging, wall/capstone-heavy policies; small flat reserves with '
         'capstones left), constructed threat boards (a line or bent line of the mover with a one- or two-square gap, corner junctions of two '
         'groups; around the gap: free singles, own walls and capstones, enemy flats/walls/capstones, own flats on enemy captives, pinned own '
         'pieces, the gap itself occupied; enemy lines for double roads; exhausted flat reserves), the many-threat / many-capstone / '
         'many-group boards of C18, random constructed boards; exhaustively all 3x3 boards with <= 2 (thorough: <= 4) and all 4x4 boards with '
         '<= 1 (thorough: <= 4) single pieces, both sides to move (of the 4x4 boards with 4 pieces every one is judged by the oracle, the model '
         'is compared on those with a reported threat and 1/16 of the rest). non-trivial = some count positive; distinct = distinct positions',
    assumptions=['ply >= 2 and game not over (the side to move has a piece in reserve)',
                 'positions are well-formed (produced by Move / FromSquares), reserves within the byte fields'],
)
MANIFEST = dict(
    text="Coq theorem threats_sound over the bit-level models (transcriptions of ai.CountThreats, MovePreallocated, GameOver/WinDetails): for "
         "every position satisfying C02's invariant at ply >= 2, if the placement-or-slide count of the side to move is positive (and the mover "
         "has a piece left) there is a move that the move model accepts and after which the end-of-game model reports game over by road, won by "
         "the mover (C19_threats_sound_live: the piece hypothesis follows from the game not being over; C19_threats_sound_game: every undecided "
         "position of a game of at least two plies replayed from tak.New with at most 64 pieces, no hypothesis about the position); proved via: every set bit of a group's placement map joins edge-touching connected parts (pmap_sound), every set bit of its "
         "slide map has a neighbouring free flat whose removal keeps the parts connected (tmap_sound), the one-piece one-step slide branch of "
         "the move model (mv_slide1), and C02's flood-fill/road theorems. The four counts are compared, model vs implementation, on every "
         "generated position; whenever the mover's counts are positive a one-ply search with the implementation and, independently, with a "
         "rules oracle (own move enumeration, DFS roads) must each find a legal road-completing move.",
    ref='5.19', technique='Coq proof (bit-level CountThreats sound w.r.t. the move and end-of-game models) + model/implementation differential + one-ply search oracle (implementation and independent rules)',
    note="Trusted: Coq kernel, extraction, transcriptions of CountThreats/MovePreallocated/GameOver (validated by execution, C01/C02/C19 drivers), generators, the rules oracle.")
