def _trivial(inp, out):
    # trivial = no threat reported for either side
    return out.split() == ['0', '0', '0', '0']


PROP = dict(
    model_args=[],
    trivial=_trivial,
    rule='positions from ply 2 on: random playouts (road-racing, edge-hugging, wall/capstone-heavy policies; small flat reserves with '
         'capstones left), constructed threat boards (a line or bent line of the mover with a one- or two-square gap, corner junctions of two '
         'groups; around the gap: free singles, own walls and capstones, enemy flats/walls/capstones, own flats on enemy captives, pinned own '
         'pieces, the gap itself occupied; enemy lines for double roads; exhausted flat reserves), the many-threat / many-capstone / '
         'many-group boards of C18, random constructed boards; exhaustively all 3x3 boards with <= 2 (thorough: <= 4) and all 4x4 boards with '
         '<= 1 (thorough: <= 4) single pieces, both sides to move (of the 4x4 boards with 4 pieces every one is judged by the oracle, the model '
         'is compared on those with a reported threat and 1/16 of the rest). non-trivial = some count positive; distinct = distinct positions',
    assumptions=['ply >= 2 and game not over (the side to move has a piece in reserve)',
                 'positions are well-formed (produced by Move / FromSquares), reserves within the byte fields'],
)
MANIFEST = dict(
    text="The four counts of ai.CountThreats are compared, model vs implementation, on every generated position; whenever the counts of the "
         "side to move are positive a one-ply search with the implementation (AllMoves/Move/GameOver) and, independently, with a rules oracle "
         "(own move enumeration, rulesMove, depth-first road search) must each find a legal move that completes a road of the mover. Coq: "
         "lemmas towards threats_sound over the bit-level model (see Properties/C19.v for what is proved).",
    ref='5.19', technique='Coq lemmas over the bit-level CountThreats model + model/implementation differential + one-ply search oracle (implementation and independent rules)',
    note="Trusted: Coq kernel, extraction, transcription of CountThreats (validated by execution), generators, the rules oracle.")
