PROP = dict(
    model_args=[],
    trivial=lambda inp, out: False,
    rule='S cases: positions produced by Move (fresh storage), MovePreallocated into dirty reused buffers (round-robin pool, '
         'search-like per-ply buffers in a depth-first walk), symmetry images: each compared with the position rebuilt from its own squares '
         '(Equal both ways + same Hash); a sample of them goes to the model (incremental hash = from-scratch formula, Hash() value). '
         'P cases: pairs - transposed move orders, prealloc vs fresh, FromSquares / TPS re-import, symmetry image, same board with other side '
         'to move / later ply, one buried or top piece changed. Census: 30k (quick) distinct playout positions per size must have distinct hashes. '
         'distinct = distinct case strings',
    assumptions=['the no-collision clause is statistical: it is explored (census), not proved'],
)
MANIFEST = dict(
    text="Coq theorems (Properties/C08.v, 17 obligations, all closed under the global context). bracket_preserves: the XOR-out / mutate / XOR-in "
         "bracket keeps hash = base xor XOR_i hashAt(i) for any per-square hash function. hash_invariant_move / scratch_hash_move: through the whole "
         "of MovePreallocated (origin bracket, every drop, placements) the incremental hash of the result equals the from-scratch value, for every "
         "successful move from a position satisfying the invariant pos_ok (established by tak.New and preserved by moves, C01), with no hypothesis "
         "on the result; scratch_hash_reachable: so it does at every position reachable from tak.New. representation_canonical: two positions "
         "satisfying pos_ok with the same size and the same squares have identical bitboards, heights, stack words and incremental hash. "
         "equal_sound / equal_complete: Position.Equal holds iff same size, same squares, same side to move, and then Hash() agrees - reserves, ply, "
         "tie-break flag and history do not matter; equal_hash_path_independent: in particular for any two move sequences from tak.New. "
         "equal_hash_however_produced (Import6.v): `produced` is the inductive closure of tak.New (any configuration), tak.FromSquares of a fitting "
         "board (any ply, any piece counts), ptn.ParseTPS of any accepted text without a stack above 64, the rebuild of symmetry.Symmetries under "
         "any coordinate map, and Position.Move with a result within the 64 limit - in any mix; every produced position satisfies pos_ok "
         "(produced_ok), so any two produced positions with the same size, the same squares as Position.At shows them and the same side to move "
         "are Equal with the same Hash() and the same incremental hash, and Equal positions have the same size, squares and side "
         "(equal_sound_produced). Witness: a replayed position, its TPS re-import and its rotation rotated back. "
         "Model of Equal/Hash/incremental hash is run against the implementation (raw 64-bit values with the regenerated basis table); a Go oracle "
         "rebuilds every generated position from its squares and checks Equal/Hash on transposing sequences, dirty-buffer moves, imports and symmetry "
         "images; a census checks hash distinctness.",
    ref='5.8', technique='Coq proof (hash invariant through the move function, canonical representation, Equal sound+complete) + model/implementation '
                         'differential + rebuild-from-squares oracle + collision census (exploration)',
    note="Trusted: Coq kernel, extraction, transcription of tak/hash.go (validated by execution). The reachability corollaries are stated for games of "
         "at most 64 pieces (sizes 3..6 with default counts) or under the hypothesis that no stack on the way exceeds 64. Imports are inside the claim for stacks <= 64 "
         "(a taller imported stack breaks the representation, C01_parse_tps_over64_refuted); caller-supplied storage (MovePreallocated into dirty "
         "buffers) is covered by execution and by C17, not by `produced`. The collision clause is exploration only (partial).")
