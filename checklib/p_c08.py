PROP = dict(
    model_args=[],
    trivial=lambda inp, out: False,
    rule='S cases: positions produced by Move (fresh storage), MovePreallocated into dirty reused buffers (round-robin pool, '
         'search-like per-ply buffers in a depth-first walk), symmetry images: each compared with the position rebuilt from its own squares '
         '(Equal both ways + same Hash); a sample of them goes to the model (incremental hash = from-scratch formula, Hash() value). '
         'P cases: pairs - transposed move orders, prealloc vs fresh, FromSquares / TPS re-import, symmetry image, same board with other side '
         'to move / later ply, one buried or top piece changed. Census: 30k (quick) distinct playout positions per size must have distinct hashes. '
         'distinct = distinct case strings',
    assumptions=['the no-collision clause is statistical: it is explored (census), not proved'],
)
MANIFEST = dict(
    text="Coq theorem bracket_preserves: the XOR-out / mutate / XOR-in bracket used at every square mutation of MovePreallocated keeps "
         "hash = base xor XOR_i hashAt(i) for any per-square hash function. Model of Equal/Hash/incremental hash is run against the "
         "implementation (raw 64-bit values with the regenerated basis table); a Go oracle rebuilds every generated position from its squares "
         "and checks Equal/Hash on transposing sequences, dirty-buffer moves, imports and symmetry images; a census checks hash distinctness.",
    ref='5.8', technique='Coq proof (hash bracket invariant) + model/implementation differential + rebuild-from-squares oracle + collision census (exploration)',
    note="Trusted: Coq kernel, extraction, transcription of tak/hash.go (validated by execution). The collision clause is exploration only (partial).")
