EXTRACT_DEPS = ['BotInst.vo', 'BotLine.vo']


def _trivial(inp, out):
    # trivial = a schedule in which the bot neither transmitted anything nor recorded a move
    evs = [e for e in out.split(' ; ')[:-1]]
    return all(e.startswith('^') and e.split('^')[3] == '-' for e in evs)


PROP = dict(
    model_args=['fixed'],
    cases_per_shard=20,
    trivial=_trivial,
    impl_timeout=3000,
    rule='one case = one deterministic schedule run through the REAL PlayGame/ObserveGame (in-package driver, scripted Client, gated '
         'Bot): events = {next server line delivered (opponent move, replayed move of either colour, Time, RequestUndo, Undo, Over, '
         'Abandoned., 16 kinds of chat/unknown lines), connection closed, release of the blocked thinker (logged with the position it '
         'was started on and whether its context was cancelled; k-th legal or an illegal answer), real 500 ms grace expiry, and '
         '"the thinker\'s answer lands WHILE the loop is handling a line": released from inside the loop\'s log call of the P/M branch '
         'or from inside SendCommand when the bot transmits its undo acceptance, i.e. after the line was taken and before the branch\'s '
         'moveCancel(), the driver waiting there until the answer sits in the buffered channel}; 3x3 and 4x4, '
         'white / black / observer, AcceptUndo on/off, AIs answering instantly / late / only after cancellation / with illegal moves. '
         'Directed: resume replay of every prefix (0..5 plies) x every release point of the ply-0 thinker, undo at every ply 1..5 x '
         '3 release points, answer landing during the accepted RequestUndo / during a replayed move line at every ply with exactly '
         'one live thinker blocked, during every line of every resume prefix, ends with blocked thinkers, whole games; + random '
         'schedules; thorough adds every ordering of {move line, move line with answer landing, thinker release, grace, Time, '
         'RequestUndo, RequestUndo with answer landing} of length 6 (play) and 5 (resume, observer, after two plies). A few hostile '
         'schedules (illegal / malformed lines) are compared with the model only. LINE LAYER: the model run starts from the RAW bytes of '
         'every line the real loop received (BotLine.classify = both switches of handleMove, the three chat regexps, strconv.Atoi on '
         'the clock fields, ParseServer); the HandleTell/HandleChat calls with their arguments and g.times after every event are L1 '
         'observables; 78 chat / near-miss lines (other game ids incl. prefix and extension of ours, extra / leading blanks, tabs, case, '
         'unknown command words, chat whose room / name / text are protocol words or our game string, corner cases of the three '
         'patterns, invalid UTF-8), 16 Time spellings (signs, overflow, junk, empty fields), 38 hostile lines (index panics, P/M '
         'texts ParseServer rejects or no server writes, protocol words behind "Tell"). Schedules whose trace fails the oracle or the model '
         'are re-run 3 times before they count. non-trivial = the bot sent or recorded something; distinct = distinct traces',
    assumptions=['the server keeps its contract (env_ok): moves legal in its own history, Undo only after the bot accepted and only '
                 'with a move to take back, well-formed lines; hostile schedules are outside the oracle',
                 'the server performs an accepted undo at once (a move the bot transmits before the Undo line reaches it is judged at '
                 'the position after the undo); the Undo line follows the acceptance before any other move / undo-request line and '
                 'before the grace timer of an earlier move line acts (expiry, or Time line while it is pending) - with the timer acting '
                 'in that window the repaired loop restarts and may transmit a move for the position before the undo (see report)',
                 'authoritative history is taken as communicated (lines delivered so far + accepted sends)',
                 'liveness (the bot eventually moves) and the grace heuristic itself are not claimed',
                 'a thinker whose context is still live when it returns belongs to the current invocation of handleMove (all earlier '
                 'invocations cancelled theirs on return); thinkers are serialised by moveLock'],
)

MANIFEST = dict(
    text="Coq theorem bot_tracks_server (induction over arbitrary event lists = every interleaving of server lines, thinker returns, "
         "late returns, timer expiries; any game, colour or observer, AcceptUndo either way): under a server that keeps its contract the "
         "repaired handleMove loop's Positions/Moves equal the authoritative history, every transmitted move was computed for the current "
         "position, on the bot's turn, legal, accepted by the server, the loop ended iff the server ended the game, and it never panicked; "
         "bot_sends_only_current holds without any assumption on the server; the pinned loop is refuted. Line layer (BotLine.v): "
         "classify_server_lines (every line a conforming server sends about the game is classified as the intended event with the move "
         "format_server printed - C11's round trip -, lines of other games and chat lines are ignored WHATEVER their text, none panics), "
         "classify_panics (exactly which raw lines make the loop panic), classify_chat (the callbacks are made exactly for the members "
         "of the three chat languages), and bot_tracks_server_raw (the main theorem over raw byte lines). The model is stepped on the "
         "same raw lines and events as the real PlayGame/ObserveGame driven under deterministic "
         "schedules (real goroutines, real grace timer), and a Go oracle judges the three clauses on the implementation's trace.",
    ref='5.7', technique='Coq invariant proof over event lists + in-package deterministic schedule driver vs extracted model + Go trace oracle',
    note="Trusted: Coq kernel, extraction, transcription of playtak/bot/bot.go (validated by execution), the schedule driver's "
         "synchronisation (Recv() re-evaluation as the loop-is-waiting signal, 250 ms rule for the real timer), the Go scheduler being "
         "sampled not enumerated (one event enabled at a time).")
