EXTRACT_DEPS = ['BotLine.vo', 'WeightsJson.vo']

PROP = dict(
    model_args=[],
    model_needs=['c10', 'c11', 'c12', 'c17'],
    trivial=lambda inp, out: len(inp) < 4,
    rule='entry points M ParseMove, S ParseServer, T ParseTPS, F PTN file (ParsePTN + InitialPosition + full replay), C chat lines '
         '(ParseTell/ParseShout/ParseShoutRoom; L1 = the returned strings, model = BotLine.v; ALL strings up to length 3-7 over small '
         'alphabets {<,>,blank,a,LF,TAB,0x80,...} bare and behind the literal prefixes of the three patterns, all short room names over '
         'the white-space bytes, real lines and mutations), J weights JSON (objects of integers over the real feature names, the out-of-range spellings of the stringer and unknown names; the decoded pairs go to the model), E TEI command stream. Inputs: ALL strings up to length 3 (quick) / 4 (thorough) '
         'over each move parser\'s alphabet, structure-aware mutations (drop/duplicate/swap/truncate/insert/replace, raw bytes) of valid '
         'spellings, TPS strings, rendered PTN files and TEI scripts, random byte strings over each grammar\'s alphabet, hand-picked edge cases '
         '(empty cells, lone markers, unterminated comments, out-of-range sizes, commands out of order, go on finished games, huge numbers). '
         'Every call runs under recover and a deadline. non-trivial = input longer than one byte; distinct = distinct (entry, input)',
    assumptions=['encoding/json (the decoding of the weight text into map[string]int64) is trusted to be total; the Go-specific part of ai/json.go (name '
                 'lookup in the table built by init(), ws[f] = v) is modelled (WeightsJson.v) over the name table REGENERATED from the linked package on '
                 'every run, and its class is compared with Weights.UnmarshalJSON on every J text that is a JSON object of integers; the regexp '
                 'package is not modelled, its results on the three chat patterns are compared with the direct functions of BotLine.v on every generated string', 'tokens longer than bufio.MaxScanTokenSize (64 KiB) are not generated'],
)
MANIFEST = dict(
    text="Coq theorems, each for EVERY byte list: the models of ParseMove, ParseServer, ParseTPS (incl. FromSquares), of the PTN-file entry "
         "point (ParsePTN, InitialPosition, whole replay through the Iterator, PositionAtMove) and of the TEI command stream (Engine.Run with "
         "an arbitrary searcher oracle) never return Panic; the chat-line parsers (total by construction) return exactly the unique split of the "
         "line in the language of their pattern, or empty strings, and equal an ordered backtracking search over the patterns; every index of the "
         "regenerated feature-name table of ai/json.go is below MaxFeature (by computation on every run), hence the loop of Weights.UnmarshalJSON "
         "over the decoded map never panics, its class does not depend on the iteration order of the map, and marshal-then-unmarshal is the identity on every weight set. The models' outcome class (value / error / panic) is compared with the "
         "implementation's on every generated string, exhaustively for short strings, and every call runs under recover and a deadline.",
    ref='5.13', technique='Coq totality proofs over models with explicit Panic results + model/implementation differential on byte strings (exhaustive for short strings) + crash/hang oracle',
    note="Trusted: Coq kernel, extraction, transcriptions (their Panic guards are exactly what the correspondence validates), encoding/json totality, Go's regexp semantics on the three chat patterns (validated by execution).")
