def _trivial(inp, out):
    # trivial = a command script in which no go was answered (no bestmove line); budget triples: movetime = gametime = 0
    f = inp.split()
    if f and f[0] == 'B':
        return f[1] == '0' and f[2] == '0'
    if f and f[0] == 'F':
        return f[1] == '0'
    if f and f[0] == 'K':
        return 'P:' not in out          # a client session without a single TEIGetMove
    return 'bestmove' not in out


PROP = dict(
    model_args=[],
    trivial=_trivial,
    impl_timeout=1500,
    rule='(a) TEI command scripts run on a fresh Engine, in two modes (L: one Run call per line on the same engine, observing '
         'e.pos/e.size/e.mm after each line; R: one Run over the whole stream): well-behaved sessions of 1-3 games (sizes 3..8, positions '
         'by startpos+moves and by TPS+moves, growing prefixes, takebacks, games played to the end, repeated go, go with every mix of '
         'movetime/wtime/btime/winc/binc incl. 64-bit overflow values), the same with lines dropped/swapped/duplicated, malformed lines '
         'inserted (bad sizes, bad TPS, bad moves, unknown commands, Unicode spaces, NUL bytes), single characters corrupted, quit midway, '
         'all teinewgame lines removed, a second game without a position, consecutive position commands with equal or extending move lists but different declared starts (startpos / TPS / another TPS, within a game and across teinewgame), byte-level damage, pure garbage, 24 fixed histories, 10 scripts with one position line of 4095..9222 bytes (a 1000-2300 ply game) then go; ConfigFactory depth 1-2, '
         'three evaluators, table of 0/16/64/256 entries; (b) calcBudget on a dense grid of boundary values and random int64 triples '
         '(ms-valued GUI clocks, clocks around 1 ms, the whole non-negative int64 range, gametime/5+inc within 2 ms of MaxInt64 incl. the go-line values wtime 3 winc 9223372036854, arbitrary int64). non-trivial = script with at '
         'least one bestmove / triple with a clock; distinct = distinct inputs. Scripts whose clock could cut the search (budget < 20 s) '
         'and 10 timed clock probes (which clock, which increment, movetime cap, 1 ms left = expires at once: class clock-ignored) are judged by the Go oracle only. '
         '(c) CLIENT sessions (K cases): tei.NewClient / Client.NewGame / Player.TEIGetMove / GetMove through their public API against an engine PROCESS - '
         'scripted (the n-th go / position / teinewgame / tei line answered with given bytes: clean and annotated bestmoves in both spellings, info lines, '
         'odd and Unicode spacing, CRLF, blank lines before the answer, bestmove lines with 0 / 2+ words or unparseable moves, stdout closed early with and '
         'without a partial line, stdin closed = failing writes, output for lines the client does not wait on, no answer at all = the client blocks) or the '
         'real Engine.Run (whole short games, a refused position); 1-3 games per client, boards repeated at later move numbers, deadlines (none / passed / less than 1 ms ahead / '
         'future) and TimeControls with 0 / sub-millisecond / exact-millisecond / huge / negative values, players of earlier games; L1 = what every call '
         'returned (move / error class / panic class / hang) and every line the engine process received. formatTime on boundary and random int64 values (F cases). '
         '(d) SELFPLAY (W cases): cmd/internal/selfplay worker (in-package driver) plays 1-3 games per session between two engine PROCESSES (real Engine.Run depth 1-2, '
         'sizes 3-5, openings empty or a few plies in, colours swapped, Cutoff 4..43, no clock / hour clocks with 0, 1 s, 10 s increment / Limit 1 h), one time loss '
         '(a scripted engine answering after 1.5 s with 1 s on the clock) and one illegal answer (panic); oracle: moves legal in sequence, final position, winner '
         '(board / clock / cutoff), clock values on the wire; L1 = status, per-game moves + position + winner, the lines both engines received (clock numbers masked).',
    assumptions=['searches are compared only when the clock cannot cut them (budget absent or >= 20 s); tiny-clock scripts are judged by the oracle only',
                 'the searcher is a parameter of the theorems; the correspondence runs the engine model with the search model of Search.v '
                 '(NoSort, no null move, no slide reduction, depth 1-2)',
                 'selfplay: wall-clock readings (durations, time left) are inputs of the model; the tie runs it with 0 ns durations (1.5 s for the one slow call) and masks the clock numbers of go lines; log.Fatalf paths (they exit the process) are not exercised by the tie',
                 'client sessions: the time left until a FUTURE deadline is read off the go line the client wrote (whole ms, checked to lie within 20 s below the '
                 'offset) and given to the model as its input; the two sessions in which the client blocks for ever are recognised by a 3 s watchdog',
                 'an engine process that dies while the client is ahead of it (after it closed a pipe or left extra output) makes writes race: such scripts are not generated'],
)

MANIFEST = dict(
    text="Coq theorems over a code-shaped model of tei/server.go, for EVERY searcher: the position handed to the searcher by each go equals the "
         "position declared by the command history read backwards (last teinewgame gives the size, last position command the position, "
         "teinewgame clears it), or the go is refused (tei_position_exact); a go on a live position prints exactly info+bestmove with the "
         "searcher's first PV move, legal if the searcher's answer is (tei_one_bestmove), and no other line of Run's output is a bestmove "
         "(tei_bestmove_only_from_go); teinewgame discards searcher and position and the next searching go builds a new searcher of the new "
         "size (tei_newgame_resets, tei_fresh_searcher); the context timeout is calcBudget of the side to move's clock and lies strictly "
         "below that clock and at most at movetime for all int64 clock values (tei_limit_within_clock, budget_bounds_fixed); Run never "
         "panics on any byte stream (tei_run_total). The model is run against the real Engine (in-package overlay driver) on ~1500 (quick) "
         "command scripts and ~83k budget triples per run; an independent Go oracle (own PTN/TPS readers, rules oracle, recording evaluator) "
         "judges the implementation's outputs directly, including which clock a go obeys (timed probes). "
         "CLIENT side (tei/client.go, tei/time.go; model coq/TeiClient.v over an arbitrary engine process, and over Tei.v as that process): the engine that reads the "
         "client's teinewgame + position lines holds exactly the position given, for every position of C10's exact round trip (client_position_line_exact); the "
         "durations the engine parses from the client's go line are the client's deadline and clock values rounded down to whole ms, never below 0, and the client "
         "refuses exactly a deadline less than 1 ms ahead and clock values that are neither 0 nor >= 1 ms (client_go_line, client_go_refused); hence the engine's budget for the client's go line is below the CLIENT's clock of the side to move and at most the time to the client's deadline when that is >= 1 ms for every deadline (client_budget_within_clock, client_deadline_always_capped: the repaired client refuses a deadline less than 1 ms ahead; the code before the repair sent it as movetime 0 = uncapped: client_deadline_uncapped_refuted_pinned); NewGame ; TEIGetMove against the engine model with a "
         "searcher_ok searcher returns the searcher's move, legal in the position, via FormatMove/ParseMove (client_server_move_legal); the client model panics only "
         "as a dead player or on an engine line without a word (client_total), never against the engine model (client_tei_no_panic). Every client session of the "
         "check (~160 quick: scripted and real engine processes) is run through the extracted client model: results and wire lines agree.",
    ref='5.17', technique='Coq proof (history invariant by induction over the command list; lia over wrapped int64) + extracted-model/implementation differential + Go protocol oracle',
    note="Trusted: Coq kernel, extraction, hand transcription of tei/server.go and tei/client.go (validated by execution only), generators, the Go oracle, the scripted engine process of the harness. "
         "Known behaviour of the client recorded, not judged: an engine line without a word makes sendCommand panic (index out of range); "
         "a go the engine does not answer (finished game) blocks TEIGetMove for ever. "
         "spec_position replays moves with the position-level move model (tied to the rules by C01), not with Rules.v directly.")
